//! C05 (multi-thread == single-thread, all schedules) and C06 (termination, failure
//! propagation, no leaked threads) - scenarios run in supervised child processes, one par-mode
//! call at a time per process, with the hook perturbing and recording the schedule.

use crate::common::{catch, finish, Ctx, Finish, Outcome, Tier};
use crate::enc::{self, EncErr};
use crate::gen::{self, Audio, ConfigOpts, Fault, FillMode, TestSource};
use crate::prng::{self, Rng};
use crate::sched::{self, Policy, POLICIES};
use crate::supervise::{self, ScenarioEnd};
use flacenc::config;
use serde_json::{json, Value};
use std::num::NonZeroUsize;
use std::sync::{Arc, Mutex};
use std::time::Duration;

#[derive(Clone, Debug)]
pub struct Scenario {
    pub audio: Arc<Audio>,
    pub cfg: config::Encoder,
    pub block: usize,
    pub workers: Option<usize>,
    /// value of FLACENC_WORKERS (None = unset)
    pub env: Option<String>,
    pub policy: Policy,
    pub faults: Vec<Fault>,
    pub mode: FillMode,
    pub hint: bool,
    pub label: String,
    /// k > 0: every k-th read of the source is short although input remains
    pub short_reads: usize,
    /// the source signals the end with a bare Ok(0) (no empty fill)
    pub bare_eof: bool,
    /// every k-th read hands over an empty block before the data (a source chaining inner sources)
    pub empty_fill_every: usize,
    /// which SourceError flavour an injected read failure carries (gen::source_error)
    pub err_flavour: usize,
    /// (read index, milliseconds): the source stalls before that read in the multi-thread run
    pub stall: Option<(usize, u64)>,
}

impl Scenario {
    fn describe(&self) -> Value {
        json!({
            "label": self.label,
            "channels": self.audio.channels, "bps": self.audio.bps, "len": self.audio.frames(), "signal": self.audio.recipe,
            "pcm_hash": format!("{:016x}", prng::hash_i32s(&self.audio.samples)),
            "block": self.block, "frames": self.audio.frames().div_ceil(self.block.max(1)),
            "workers": self.workers, "env_FLACENC_WORKERS": self.env, "policy": format!("{:?}", self.policy),
            "faults": format!("{:?}", self.faults), "fill": format!("{:?}", self.mode), "config": gen::describe_config(&self.cfg), "short_read_every": self.short_reads, "bare_eof": self.bare_eof, "empty_fill_every": self.empty_fill_every, "read_error_flavour": self.err_flavour % gen::ERR_FLAVOURS, "stall_before_read_ms": format!("{:?}", self.stall),
        })
    }
}

/// Audio whose blocks alternate between cheap (constant/silence) and expensive (noise) content.
fn mixed_cost_audio(rng: &mut Rng, channels: usize, bps: usize, block: usize, frames: usize, tail: usize) -> Audio {
    let len = frames * block + tail;
    let mut samples = vec![0i32; len * channels];
    let mut recipe = String::from("blocks:");
    let nblocks = (len + block - 1) / block.max(1);
    for b in 0..nblocks {
        let fam = *rng.pick(&["silence", "dc_p1", "noise_full", "sine_loud_noise", "laplace", "sine", "alt2", "tiny_noise"]);
        if b < 6 {
            recipe.push_str(fam);
            recipe.push(',');
        }
        let s = b * block;
        let e = ((b + 1) * block).min(len);
        for ch in 0..channels {
            let c = gen::gen_channel(rng, fam, bps, e - s);
            for (t, x) in c.iter().enumerate() {
                samples[(s + t) * channels + ch] = *x;
            }
        }
    }
    Audio { channels, bps, rate: 44100, samples, recipe }
}

/// More than 2^16 frames (4-byte coded frame numbers; frame sizes of late frames decide the
/// STREAMINFO extremes): 8-bit mono, 32-sample blocks, noise with an amplitude ramp.
fn gen_c05_long(seed: u64, idx: u64) -> Scenario {
    let mut rng = Rng::for_case(seed, "C05.long", idx);
    let block = 32usize;
    let frames = 65_537 + rng.usize_below(200);
    let len = frames * block + if rng.flip() { rng.usize_below(block) } else { 0 };
    let bps = *rng.pick(&[8usize, 16]);
    let full = gen::smax(bps) as f64;
    let up = idx % 2 == 0;
    let samples: Vec<i32> = (0..len)
        .map(|t| {
            let pos = t as f64 / len as f64;
            let env = if up { pos } else { 1.0 - pos };
            (full * env * env * (rng.f64() * 2.0 - 1.0)) as i32
        })
        .collect();
    let mut cfg = config::Encoder::default();
    cfg.multithread = true;
    cfg.subframe_coding.use_lpc = false;
    cfg.block_size = block;
    Scenario {
        audio: Arc::new(Audio { channels: 1, bps, rate: 8000, samples, recipe: format!("ramp_{}_noise {frames} frames", if up { "up" } else { "down" }) }),
        cfg,
        block,
        workers: Some(*rng.pick(&[2usize, 4, 8])),
        env: None,
        policy: Policy::None,
        faults: vec![],
        mode: if rng.flip() { FillMode::Int } else { FillMode::Bytes },
        hint: rng.flip(),
        label: format!("long#{idx}"),
        short_reads: 0,
        bare_eof: false,
        empty_fill_every: 0,
        err_flavour: 0,
        stall: None,
    }
}

/// Blocks whose serialised samples exceed 64 KiB .. 768 KiB, from a source without a length hint.
fn gen_c05_big(seed: u64, idx: u64) -> Scenario {
    let mut rng = Rng::for_case(seed, "C05.big", idx);
    let channels = *rng.pick(&[3usize, 5, 6, 7, 8, 2]);
    let bps = *rng.pick(&[24usize, 24, 20, 16]);
    let block = *rng.pick(&[4096usize, 10_923, 16_384, 21_846, 32_767]);
    let (nfull, tail) = (1 + rng.usize_below(2), rng.usize_below(block));
    let audio = mixed_cost_audio(&mut rng, channels, bps, block, nfull, tail);
    let mut cfg = gen::gen_config(&mut rng, &ConfigOpts { multithread: Some(true), min_max_parameter: 8, no_experimental: false });
    cfg.subframe_coding.qlpc.lpc_order = cfg.subframe_coding.qlpc.lpc_order.min(8);
    cfg.block_size = block;
    Scenario {
        audio: Arc::new(audio),
        cfg,
        block,
        workers: Some(*rng.pick(&[1usize, 2, 4])),
        env: None,
        policy: if idx % 2 == 0 { Policy::None } else { Policy::Yield },
        faults: vec![],
        mode: if rng.flip() { FillMode::Int } else { FillMode::Bytes },
        hint: false,
        label: format!("big#{idx}"),
        short_reads: 0,
        bare_eof: false,
        empty_fill_every: 0,
        err_flavour: 0,
        stall: None,
    }
}

/// Worker counts far above the core count (129 .. 1024, the library's clamp): twice as many frame
/// buffers circulate, so buffer ids, queue capacities and token counts pass 255/256 and 512; the
/// stream is long enough for every buffer to be recycled at least once.
fn gen_c05_manyworkers(seed: u64, idx: u64) -> Scenario {
    let mut rng = Rng::for_case(seed, "C05.manyworkers", idx);
    let w = [129usize, 160, 255, 256, 257, 300, 513, 1024][(idx % 8) as usize];
    let block = 32usize;
    let frames = 2 * w + 40 + rng.usize_below(3 * w);
    let len = frames * block + rng.usize_below(block);
    let bps = *rng.pick(&[8usize, 16]);
    // cheap frames of distinct content (a lost, duplicated or re-ordered frame changes the bytes)
    let full = gen::smax(bps) as i64;
    let mut samples = vec![0i32; len];
    for (b, chunk) in samples.chunks_mut(block).enumerate() {
        let v = rng.range(-full, full) as i32;
        for (t, x) in chunk.iter_mut().enumerate() {
            *x = if b % 7 == 3 { (v / 2) + ((t * 13) % 17) as i32 - 8 } else { v };
        }
    }
    let mut cfg = config::Encoder::default();
    cfg.multithread = true;
    cfg.subframe_coding.use_lpc = false;
    cfg.block_size = block;
    let via_env = idx % 3 == 1;
    Scenario {
        audio: Arc::new(Audio { channels: 1, bps, rate: 8000, samples, recipe: format!("{frames} cheap distinct frames for {w} workers") }),
        cfg,
        block,
        workers: if via_env { None } else { Some(w) },
        env: if via_env { Some(w.to_string()) } else { None },
        policy: if idx % 2 == 0 { Policy::None } else { Policy::Yield },
        faults: vec![],
        mode: if rng.flip() { FillMode::Int } else { FillMode::Bytes },
        hint: rng.flip(),
        label: format!("manyworkers#{idx} W={w}"),
        short_reads: 0,
        bare_eof: false,
        empty_fill_every: 0,
        err_flavour: 0,
        stall: None,
    }
}

pub fn gen_c05(seed: u64, sub: &str, idx: u64) -> Scenario {
    if sub == "long" {
        return gen_c05_long(seed, idx);
    }
    if sub == "manyworkers" {
        return gen_c05_manyworkers(seed, idx);
    }
    if sub == "big" {
        return gen_c05_big(seed, idx);
    }
    let mut rng = Rng::for_case(seed, &format!("C05.{sub}"), idx);
    let bps = *rng.pick(&gen::WIDTHS);
    let channels = *rng.pick(&[1usize, 2, 2, 2, 3, 5, 8]);
    let block = *rng.pick(&[32usize, 33, 64, 100, 128, 192, 256]);
    let frames = match rng.usize_below(6) {
        0 => rng.usize_below(3),
        1 => 30 + rng.usize_below(170),
        _ => 3 + rng.usize_below(30),
    };
    let frames = frames.min(40_000 / (block * channels)).max(0);
    let tail = if rng.flip() { rng.usize_below(block) } else { 0 };
    let audio = mixed_cost_audio(&mut rng, channels, bps, block, frames, tail);
    let mut cfg = gen::gen_config(&mut rng, &ConfigOpts { multithread: Some(true), min_max_parameter: 6, no_experimental: false });
    if rng.chance(1, 2) {
        cfg.subframe_coding.use_lpc = true;
        cfg.subframe_coding.qlpc.lpc_order = 24;
    }
    // the block-size argument is authoritative; the configuration's field sometimes differs
    cfg.block_size = if rng.chance(1, 4) { *rng.pick(&[32usize, 64, 4096, 1000]) } else { block };
    let (workers, env) = if sub == "env" {
        let v = ENV_VALUES[(idx % ENV_VALUES.len() as u64) as usize];
        (None, Some(v.to_string()))
    } else {
        (Some(*rng.pick(&[1usize, 2, 2, 3, 4, 4, 8, 16, 32])), None)
    };
    let policy = if sub == "env" { Policy::Yield } else { POLICIES[(idx % POLICIES.len() as u64) as usize] };
    Scenario {
        audio: Arc::new(audio),
        cfg,
        block,
        workers,
        env,
        policy,
        faults: vec![],
        mode: if rng.flip() { FillMode::Int } else { FillMode::Bytes },
        hint: rng.flip(),
        label: format!("{sub}#{idx}"),
        // one scheduled scenario in eight reads from a pipe-style source (short reads mid-stream)
        short_reads: if sub == "sched" && idx % 8 == 5 { 2 + (idx as usize / 8) % 3 } else { 0 },
        bare_eof: idx % 4 == 1,
        // one scheduled scenario in eight reads from a chain of inner sources
        empty_fill_every: if sub == "sched" && idx % 8 == 6 { 2 + (idx as usize / 8) % 3 } else { 0 },
        err_flavour: 0,
        stall: None,
    }
}

/// Values of the FLACENC_WORKERS override: small counts, strings that do not parse, zero, a value
/// beyond u64, and counts no machine can serve (usize::MAX, 2^63, 2^32: the library must clamp or
/// ignore them - not overflow, not try to start that many threads).
pub const ENV_VALUES: [&str; 17] = ["1", "2", "3", "7", "16", "64", "abc", "", "0", "99999999999999999999", " 4", "-1", "08", "18446744073709551615", "9223372036854775808", "4294967296", "1025"];

/// Enumerated fault grid for C06: (F frames, fault kind, position k, W, policy).
pub fn c06_grid(tier: Tier) -> Vec<(usize, u8, usize, usize, usize)> {
    let fs: &[usize] = tier.pick(&[1, 2, 3, 5, 8, 12][..], &[1, 2, 3, 4, 5, 8, 12, 20][..]);
    let ws: &[usize] = tier.pick(&[1, 2, 3, 4][..], &[1, 2, 3, 4, 8, 16][..]);
    let pols: &[usize] = tier.pick(&[0, 3, 2, 7, 4][..], &[0, 1, 2, 3, 4, 5, 6, 7][..]);
    let mut g = vec![];
    for f in fs {
        for kind in 0u8..4 {
            // kind 0: read error at read k (k = F is the read that would have returned 0)
            // kind 1..3: out-of-range sample at first/middle/last position of block k (k < F)
            let kmax = if kind == 0 { *f } else { *f - 1 };
            for k in 0..=kmax {
                for w in ws {
                    for p in pols {
                        g.push((*f, kind, k, *w, *p));
                    }
                }
            }
        }
    }
    g
}

pub fn gen_c06(seed: u64, tier: Tier, sub: &str, idx: u64) -> Scenario {
    let mut rng = Rng::for_case(seed, &format!("C06.{sub}"), idx);
    let bps = *rng.pick(&[16usize, 16, 8, 24, 12]);
    let channels = if sub == "ragged" { *rng.pick(&[2usize, 2, 3, 5]) } else { *rng.pick(&[1usize, 2, 2, 3]) };
    let block = *rng.pick(&[32usize, 64, 64, 128]);
    let bad_value = |rng: &mut Rng| -> i32 {
        let over = 1i32 << (bps - 1);
        *rng.pick(&[over, -over - 1, over + 12345, i32::MAX, i32::MIN, -(over * 2)])
    };
    let (frames, faults, w, pol, label) = match sub {
        "enum" => {
            let grid = c06_grid(tier);
            let (f, kind, k, w, p) = grid[(idx as usize) % grid.len()];
            let fault = if kind == 0 {
                Fault::ErrAt(k)
            } else {
                Fault::BadAt { read: k, pos: kind - 1, ch: rng.usize_below(channels), value: bad_value(&mut rng) }
            };
            (f, vec![fault], w, p, format!("enum F={f} kind={kind} k={k} W={w} pol={p}"))
        }
        "combo" => {
            let f = 1 + rng.usize_below(12);
            let nf = 2 + rng.usize_below(3);
            let mut faults = vec![];
            for _ in 0..nf {
                if rng.chance(1, 3) {
                    faults.push(Fault::ErrAt(rng.usize_below(f + 1)));
                } else {
                    faults.push(Fault::BadAt { read: rng.usize_below(f), pos: rng.usize_below(3) as u8, ch: rng.usize_below(channels), value: bad_value(&mut rng) });
                }
            }
            let w = *rng.pick(&[1usize, 2, 3, 4, 8]);
            (f, faults, w, rng.usize_below(POLICIES.len()), format!("combo F={f}"))
        }
        "env" => {
            // the worker count comes from the environment override (config.workers = None):
            // one fault, two faults or none
            let f = 1 + rng.usize_below(8);
            let faults = match idx % 4 {
                0 => vec![],
                1 => vec![Fault::ErrAt(rng.usize_below(f + 1))],
                2 => vec![Fault::BadAt { read: rng.usize_below(f), pos: rng.usize_below(3) as u8, ch: rng.usize_below(channels), value: bad_value(&mut rng) }],
                _ => vec![Fault::BadAt { read: rng.usize_below(f), pos: 0, ch: 0, value: bad_value(&mut rng) }, Fault::ErrAt(rng.usize_below(f + 1))],
            };
            (f, faults, 0, rng.usize_below(POLICIES.len()), format!("env F={f} FLACENC_WORKERS={:?}", ENV_VALUES[((idx / 4) % ENV_VALUES.len() as u64) as usize]))
        }
        "ragged" => {
            // a block that is not a whole number of inter-channel samples, at read k (the source
            // misbehaves; what the library does with it may be an error or not, but multi-thread
            // mode must do what single-thread mode does, return, and leave no thread behind)
            let f = 1 + rng.usize_below(12);
            let k = rng.usize_below(f);
            let w = *rng.pick(&[1usize, 2, 3, 4, 8]);
            (f, vec![Fault::RaggedAt { read: k, extra: 1 + rng.usize_below(2) }], w, rng.usize_below(POLICIES.len()), format!("ragged F={f} k={k} W={w}"))
        }
        "stall" => {
            let f = 6 + rng.usize_below(6);
            let w = *rng.pick(&[1usize, 2, 4]);
            (f, vec![], w, 0, format!("stall F={f} W={w}"))
        }
        _ => {
            // fault-free
            let f = rng.usize_below(13);
            let w = *rng.pick(&[1usize, 2, 3, 4, 8]);
            (f, vec![], w, rng.usize_below(POLICIES.len()), format!("faultfree F={f}"))
        }
    };
    let tail = if rng.flip() && frames > 0 { 0 } else { rng.usize_below(block) };
    // the fault grid counts reads: F full-or-partial blocks => F reads with data
    let len = if frames == 0 { 0 } else { (frames - 1) * block + if tail == 0 { block } else { tail } };
    let audio = mixed_cost_audio(&mut rng, channels, bps, block, 0, len);
    let mut cfg = gen::gen_config(&mut rng, &ConfigOpts { multithread: Some(true), min_max_parameter: 6, no_experimental: false });
    cfg.block_size = block;
    // 'refused': a fault-free source and a block-size argument the call must refuse (the failure
    // is the caller's argument, not the source): same outcome kind in both thread modes, and -
    // like after any return - no helper thread left behind or panicking afterwards
    let (block, label) = if sub == "refused" { let b = [0usize, 1, 15, 16, 31, 32768, 40000, 65536, usize::MAX][(idx % 9) as usize]; (b, format!("refused block={b} ({label})")) } else { (block, label) };
    Scenario {
        audio: Arc::new(audio),
        cfg,
        block,
        workers: if sub == "env" { None } else { Some(w) },
        env: if sub == "env" { Some(ENV_VALUES[((idx / 4) % ENV_VALUES.len() as u64) as usize].to_string()) } else { None },
        policy: POLICIES[pol % POLICIES.len()],
        faults,
        mode: FillMode::Int,
        hint: rng.flip(),
        label,
        // one fault-free scenario in five reads from a pipe-style source (a short block between
        // full ones): every block delivered must still come out as a frame, exactly once
        short_reads: if sub == "faultfree" && idx % 5 == 1 { 2 + (idx as usize / 5) % 3 } else { 0 },
        bare_eof: idx % 4 == 2,
        // fault-free and env scenarios: one in five reads from a chain of inner sources
        empty_fill_every: if (sub == "faultfree" || sub == "env") && idx % 5 == 3 { 2 + (idx as usize / 5) % 3 } else { 0 },
        // the grid of the enumeration has 3 (policy) x 3 (W) x ... entries per fault position;
        // idx / 3 walks through the flavours independently of the policy index
        err_flavour: (idx / 3 + idx / 11) as usize,
        // 'stall': a fault-free source (a capture device, a pipe whose writer pauses) that delivers
        // nothing for seconds in the middle of the stream; helper threads that give up waiting
        // leave the blocks behind the pause without an encoder
        stall: if sub == "stall" { Some((frames / 2, [6500u64, 2500, 11000, 16000, 31000, 4500, 61000, 8000][(idx % 8) as usize])) } else { None },
    }
}

fn result_kind(r: &Result<Vec<u8>, EncErr>) -> String {
    match r {
        Ok(_) => "Ok".into(),
        Err(EncErr::Api(k, _)) => format!("Err:{k}"),
        Err(EncErr::Panic(p)) => format!("Panic:{}", p.site()),
    }
}

fn run_encode(cfg: &config::Encoder, sc: &Scenario, multithread: bool) -> Result<Vec<u8>, EncErr> {
    let mut c = cfg.clone();
    c.multithread = multithread;
    c.workers = sc.workers.and_then(NonZeroUsize::new);
    let v = enc::verified(&c).map_err(|e| EncErr::Api("ConfigRejected", e))?;
    let mut src = TestSource::new(Arc::clone(&sc.audio), sc.mode, sc.hint && sc.short_reads == 0).with_faults(sc.faults.clone());
    src.short_reads = sc.short_reads;
    src.bare_eof = sc.bare_eof;
    src.empty_fill_every = sc.empty_fill_every;
    src.err_flavour = sc.err_flavour;
    if multithread {
        src.stall = sc.stall;
    }
    let stream = enc::encode_stream(&v, src, sc.block)?;
    enc::to_bytes(&stream).map_err(|e| EncErr::Api("Serialise", format!("{e:?}").chars().take(200).collect()))
}

/// Executes one scenario inside the child; returns the JSON result line.
pub fn exec_scenario(prop: &str, sc: &Scenario) -> Value {
    let mut violations: Vec<(String, String)> = vec![];
    let mut stats = serde_json::Map::new();
    // reference: single-thread with the same (faulty) source
    let single = run_encode(&sc.cfg, sc, false);
    if let Some(v) = &sc.env {
        std::env::set_var("FLACENC_WORKERS", v);
    } else {
        std::env::remove_var("FLACENC_WORKERS");
    }
    // under Miri /proc would describe the interpreter, not the program: the event log (T5) and
    // Miri's own leak check decide there
    // ThreadSanitizer starts a background thread of its own lazily: the OS-level count is only
    // meaningful in the plain builds (the event-log rule T5 applies everywhere)
    let tsan = crate::common::mode() == "tsan";
    let os_count = || if cfg!(miri) || tsan { 0 } else { supervise::os_thread_count() };
    let base_threads = os_count();
    let _ = crate::common::take_helper_panics();
    sched::begin_run(sc.policy, prng::hash_str(&sc.label));
    let par = run_encode(&sc.cfg, sc, true);
    let log = sched::end_run();
    // OS-level confirmation of "no thread left": wait (bounded) for the count to come back
    let mut after = os_count();
    let mut waited = 0;
    while after > base_threads && waited < 40 {
        std::thread::sleep(Duration::from_millis(5));
        after = os_count();
        waited += 1;
    }
    let helper_panics = crate::common::take_helper_panics();
    let sk = result_kind(&single);
    let pk = result_kind(&par);
    stats.insert("single".into(), json!(sk));
    stats.insert("par".into(), json!(pk));
    let (summary, tv) = sched::check_trace(&log, par.is_ok());
    for (rule, d) in tv {
        violations.push((format!("{prop}|trace|{rule}"), d));
    }
    for p in &helper_panics {
        violations.push((format!("{prop}|helper-panic|{}", p.site()), format!("a helper thread panicked: {}", p.short())));
    }
    if let Err(EncErr::Panic(p)) = &par {
        violations.push((format!("{prop}|panic|{}", p.site()), format!("multi-thread encode panicked in the caller: {}", p.short())));
    }
    if let Err(EncErr::Panic(p)) = &single {
        violations.push((format!("{prop}|single-panic|{}", p.site()), format!("single-thread encode panicked: {}", p.short())));
    }
    if after > base_threads {
        violations.push((format!("{prop}|thread-leak|os"), format!("{} OS threads before the call, {} still present 200 ms after it returned ({pk})", base_threads, after)));
    }
    if sc.faults.is_empty() {
        match (&single, &par) {
            (Ok(a), Ok(b)) => {
                if a != b {
                    let pos = a.iter().zip(b.iter()).position(|(x, y)| x != y);
                    violations.push((format!("{prop}|bytes-differ|par-vs-single"), format!("multi-thread stream differs from single-thread stream (first at byte {pos:?}, lengths {} vs {})", b.len(), a.len())));
                }
            }
            (Ok(_), Err(_)) => violations.push((format!("{prop}|par-fails|{pk}"), format!("single-thread Ok but multi-thread {pk}"))),
            (Err(_), _) if sk != pk && !pk.starts_with("Panic") => violations.push((format!("{prop}|kind-differs|{sk}-vs-{pk}"), format!("fault-free source, refused argument: single-thread returns {sk} but multi-thread returns {pk}"))),
            _ => {}
        }
        if prop == "C05" {
            if let Ok(a) = &single {
                // frame-by-frame assembly (reads whole blocks: not comparable when the source of
                // the scenario delivers short reads mid-stream)
                let mut c = sc.cfg.clone();
                c.multithread = false;
                if let (Ok(v), true) = (enc::verified(&c), sc.short_reads == 0) {
                    match enc::encode_framewise(&v, &sc.audio, sc.mode, sc.block).and_then(|s| enc::to_bytes(&s).map_err(|e| EncErr::Api("Serialise", format!("{e:?}")))) {
                        Ok(fw) => {
                            if &fw != a {
                                let pos = a.iter().zip(fw.iter()).position(|(x, y)| x != y);
                                violations.push(("C05|bytes-differ|framewise-vs-single".into(), format!("frame-by-frame assembly differs from the stream-level result (first at byte {pos:?})")));
                            }
                        }
                        Err(e) => violations.push(("C05|framewise-fails".into(), format!("{e:?}").chars().take(200).collect())),
                    }
                }
                // repeat of the multi-thread run (no recording)
                let again = run_encode(&sc.cfg, sc, true);
                match (&par, &again) {
                    (Ok(x), Ok(y)) if x != y => violations.push(("C05|bytes-differ|repeat".into(), "two multi-thread runs of the same input differ".into())),
                    (Ok(_), Err(_)) => violations.push(("C05|repeat-fails".into(), result_kind(&again))),
                    _ => {}
                }
            }
        }
    } else {
        // faulty source: the same kind of error single-thread encoding returns for the same
        // source. Single-thread meets the first fault in stream order; par mode reads the source
        // in the same order from one feeder thread, encodes every block read before a failing
        // read, and reports a worker's error before the feeder's, so it is deterministic too.
        let accept: Vec<String> = vec![sk.clone()];
        if sk == "Ok" {
            // the fault did not manifest (e.g. error injected at a read that never happens)
            if pk != "Ok" {
                violations.push((format!("{prop}|kind-differs"), format!("single-thread returns Ok but multi-thread returns {pk}")));
            }
        } else if !accept.contains(&pk) && !pk.starts_with("Panic") {
            violations.push((format!("{prop}|kind-differs|{sk}-vs-{pk}"), format!("single-thread returns {sk} but multi-thread returns {pk}")));
        }
    }
    json!({
        "violations": violations,
        "stats": stats,
        "summary": {
            "workers": summary.workers, "frames_assigned": summary.frames_assigned, "frames_pushed": summary.frames_pushed,
            "out_of_order": summary.out_of_order_push, "max_encode_queue": summary.max_encode_queue, "max_hash_queue": summary.max_hash_queue,
            "hash_queue_full": summary.hash_queue_full_seen, "interleaving": format!("{:016x}", summary.interleaving_hash), "events": summary.events,
            "helpers_started": summary.helpers_started, "helpers_exited": summary.helpers_exited, "returned": summary.returned,
        },
        "trace_head": log.iter().take(14).map(|e| format!("{}:{}({},{})", e.tid, e.site, e.a, e.b)).collect::<Vec<_>>(),
    })
}

/// Child entry: `fvmon child <prop> <tier> <seed> <sub> <start> <step> <end>`.
pub fn child_main(args: &[String]) -> i32 {
    let prop = args[0].clone();
    let tier = if args[1] == "thorough" { Tier::Thorough } else { Tier::Quick };
    let seed: u64 = args[2].parse().unwrap_or(1);
    let sub = args[3].clone();
    let start: u64 = args[4].parse().unwrap_or(0);
    let step: u64 = args[5].parse().unwrap_or(1);
    let end: u64 = args[6].parse().unwrap_or(0);
    sched::install();
    crate::common::install_panic_hook();
    crate::common::mark_harness_thread();
    let mut i = start;
    while i < end {
        println!("S {i}");
        let r = catch(|| match prop.as_str() {
            "C17" => crate::mon_e::child17(i),
            "C18" => crate::mon_e::child18(seed, i),
            _ => {
                let sc = if prop == "C05" { gen_c05(seed, &sub, i) } else { gen_c06(seed, tier, &sub, i) };
                exec_scenario(&prop, &sc)
            }
        });
        match r {
            Ok(v) => println!("R {i} {v}"),
            Err(p) => println!("R {i} {}", json!({"harness_error": p.short()})),
        }
        i += step;
    }
    0
}

struct ParAgg {
    out: Outcome,
}

fn supervise_sub(ctx: &Ctx, sub: &str, n: u64, agg: &Arc<Mutex<ParAgg>>) {
    if n == 0 {
        return;
    }
    let (first, step, end, procs) = match &ctx.only {
        Some((s, i)) => {
            if s != sub {
                return;
            }
            (*i, 1u64, *i + 1, 1u64)
        }
        None => (0u64, ctx.threads as u64, n, ctx.threads as u64),
    };
    let base: Vec<String> = vec!["child".into(), ctx.prop.clone(), ctx.tier.name().into(), ctx.seed.to_string(), sub.to_string()];
    std::thread::scope(|s| {
        for p in 0..procs.min(end - first) {
            let base = base.clone();
            let agg = Arc::clone(agg);
            let prop = ctx.prop.clone();
            let seed = ctx.seed;
            let tier = ctx.tier;
            let sub = sub.to_string();
            s.spawn(move || {
                supervise::run_batch(&base, &[], first + p, step, end, Duration::from_secs(120), |idx, endk| {
                    let sc = if prop == "C05" { gen_c05(seed, &sub, idx) } else { gen_c06(seed, tier, &sub, idx) };
                    let rp = || json!({"monitor": prop, "sub": sub, "index": idx, "seed": seed, "tier": tier.name(), "case": sc.describe()});
                    let mut g = agg.lock().unwrap();
                    let out = &mut g.out;
                    out.evaluations += 1;
                    out.count(&format!("sub_{sub}"));
                    match endk {
                        ScenarioEnd::Result(j) => {
                            let v: Value = serde_json::from_str(&j).unwrap_or(json!({"harness_error": "unparsable child line"}));
                            if let Some(e) = v.get("harness_error") {
                                out.inconclusive.push(format!("harness error in child scenario {sub}#{idx}: {e}"));
                                return;
                            }
                            for viol in v["violations"].as_array().cloned().unwrap_or_default() {
                                let sig = viol[0].as_str().unwrap_or("?").to_string();
                                let det = viol[1].as_str().unwrap_or("?").to_string();
                                out.violation(sig, format!("{det} [{}]", sc.label), rp());
                            }
                            let s = &v["summary"];
                            out.count(&format!("result_par_{}", v["stats"]["par"].as_str().unwrap_or("?")));
                            out.count(&format!("policy_{:?}", sc.policy));
                            out.count(&format!("workers_{}", s["workers"].as_u64().unwrap_or(0)));
                            if s["out_of_order"].as_bool() == Some(true) {
                                out.count("runs_with_out_of_order_completion");
                            }
                            if s["hash_queue_full"].as_bool() == Some(true) {
                                out.count("runs_with_full_hash_queue");
                            }
                            out.max("max_encode_queue_depth", s["max_encode_queue"].as_u64().unwrap_or(0));
                            out.max("max_hash_queue_depth", s["max_hash_queue"].as_u64().unwrap_or(0));
                            out.add("events_recorded", s["events"].as_u64().unwrap_or(0));
                            out.add("frames_assigned", s["frames_assigned"].as_u64().unwrap_or(0));
                            if let Some(h) = s["interleaving"].as_str() {
                                out.distinct.insert(prng::hash_str(h));
                            }
                            if out.samples.len() < 4 && s["events"].as_u64().unwrap_or(0) > 0 {
                                out.sample(json!({"scenario": sc.describe(), "result": v["stats"], "summary": s, "trace_head": v["trace_head"]}));
                            }
                        }
                        ScenarioEnd::Deadlock { threads, detail } => {
                            let cls = if sc.faults.is_empty() { "fault-free".to_string() } else { format!("{:?}", sc.faults[0]).chars().take_while(|c| c.is_alphabetic()).collect() };
                            out.violation(format!("{prop}|deadlock|{cls}|W{}", sc.workers.map_or("env".to_string(), |w| if w == 1 { "1".to_string() } else { "n".to_string() })), format!("call did not return: {detail} ({threads} threads) [{}]", sc.label), rp());
                        }
                        ScenarioEnd::Died(d) => {
                            out.violation(format!("{prop}|process-died"), format!("{d} [{}]", sc.label), rp());
                        }
                        ScenarioEnd::Watchdog => out.inconclusive.push(format!("watchdog (120 s) fired in scenario {sub}#{idx} without a quiescent state")),
                        ScenarioEnd::HarnessError(d) => out.inconclusive.push(format!("harness error in scenario {sub}#{idx}: {d}")),
                    }
                });
            });
        }
    });
}

pub fn run_c05(ctx: &Ctx) -> i32 {
    let agg = Arc::new(Mutex::new(ParAgg { out: Outcome::default() }));
    supervise_sub(ctx, "sched", ctx.tier.pick(1600, 120_000), &agg);
    supervise_sub(ctx, "env", ctx.tier.pick(104, 1300), &agg);
    supervise_sub(ctx, "long", ctx.tier.pick(2, 32), &agg);
    supervise_sub(ctx, "big", ctx.tier.pick(12, 200), &agg);
    supervise_sub(ctx, "manyworkers", ctx.tier.pick(8, 96), &agg);
    let out = std::mem::take(&mut agg.lock().unwrap().out);
    let ooo = out.stats.get("runs_with_out_of_order_completion").copied().unwrap_or(0);
    let fin = Finish {
        level: "exploration",
        rule: "every scenario (generated input with alternating cheap/expensive blocks x configuration x W in {1,2,3,4,8,16,32} or FLACENC_WORKERS in 17 strings (incl. 0, unparsable, usize::MAX, 2^63, 2^32, 1025) x 8 schedule policies injected at the hook's scheduling points; plus 'long' scenarios of more than 65536 frames 'big' scenarios with blocks of 64-768 KiB raw from a source without a length hint, and 'manyworkers' scenarios with 129..1024 workers (from the configuration or the environment) and enough frames for every buffer to be recycled) runs in a supervised child, one multi-thread call at a time: bytes(single) == bytes(multi) == bytes(frame-by-frame assembly) == bytes(multi, repeated); the totally ordered event log is checked offline for T1 buffer ownership alternation, T2 frame numbers 0,1,2.. each encoded and pushed exactly once, T3 stop tokens, T4 hasher FIFO/no-loss, T5 all helpers exited before return; distinct = distinct interleavings (hash of the log projected to (role, site))",
        assumptions: vec!["schedules are sampled by real threads + injected delays at the library's own suspension points; not all interleavings are visited".into(), "deadlock is decided by /proc state (all tasks in futex wait, no CPU time or context switch for 2 s), never by a deadline".into()],
        exhaustive: None,
        floors: vec![("runs in which a frame completed before a lower-numbered one".into(), ooo, 10)],
        extra: json!({}),
    };
    finish(ctx, out, fin)
}

pub fn run_c06(ctx: &Ctx) -> i32 {
    let agg = Arc::new(Mutex::new(ParAgg { out: Outcome::default() }));
    let grid = c06_grid(ctx.tier).len() as u64;
    supervise_sub(ctx, "enum", grid, &agg);
    supervise_sub(ctx, "combo", ctx.tier.pick(480, 16_000), &agg);
    supervise_sub(ctx, "faultfree", ctx.tier.pick(480, 16_000), &agg);
    supervise_sub(ctx, "refused", ctx.tier.pick(54, 900), &agg);
    if !cfg!(miri) {
        supervise_sub(ctx, "stall", ctx.tier.pick(3, 8), &agg);
    }
    supervise_sub(ctx, "ragged", ctx.tier.pick(240, 8000), &agg);
    supervise_sub(ctx, "env", ctx.tier.pick(136, 2720), &agg);
    let out = std::mem::take(&mut agg.lock().unwrap().out);
    let fin = Finish {
        level: "fault_enumeration",
        rule: "'enum' enumerates F in {1,2,3,5,8,12} (thorough: {1,2,3,4,5,8,12,20}) frames x fault kind (read error at read k for every k in 0..=F; out-of-range sample at first/middle/last position of block k for every k < F) x W x schedule policy (quick: W in {1,2,3,4}, 5 policies; thorough: W in {1,2,3,4,8,16}, 8 policies); 'combo' = 2-4 random faults; 'faultfree' = no fault (one in five from a pipe-style source: a short block between full ones); 'refused' = fault-free source and a block-size argument outside 32..=32767 (the failure is the caller's argument: same kind in both modes, no thread left or panicking afterwards); 'env' = 0-2 faults with the worker count taken from FLACENC_WORKERS (17 strings incl. 0, unparsable, usize::MAX, 2^63); 'ragged' = a block that is not a whole number of inter-channel samples at a random read (judged like the other faults: same outcome kind as single-thread, return, no panic, no thread left). A quarter of the sources signal the end with a bare Ok(0) instead of an empty fill. Each scenario runs in a supervised child: the call must return (deadlock = all tasks in futex wait without CPU time/context switches for 20 samples), no thread may panic, the error kind must equal single-thread's for the same source, no helper thread may be alive at return (event log T5 + /proc/self/task), and fault-free runs satisfy T1-T4; distinct = distinct interleavings",
        assumptions: vec!["a livelock that keeps switching context would be inconclusive (watchdog), not a violation".into()],
        exhaustive: Some(false),
        floors: vec![("scenarios that returned an error (fault manifested)".into(), out.stats.iter().filter(|(k, _)| k.starts_with("result_par_Err")).map(|(_, v)| *v).sum(), 100)],
        extra: json!({"enumerated_grid": grid}),
    };
    finish(ctx, out, fin)
}
