#!/bin/bash
# tools/runall.sh <tier> [ids...] : run checks sequentially, print one summary line each
tier=${1:-quick}; shift
ids=${@:-C01 C02 C03 C04 C05 C06 C07 C08 C09 C10 C11 C12 C13 C14 C15 C16 C17 C18 C19 C20}
ROOT=${VERIF_ROOT:-$(cd "$(dirname "$0")/.." && pwd)}
cd "$ROOT"
export VERIF_ROOT=$ROOT
L=${RUNALL_LOGDIR:-/tmp}
for id in $ids; do
  s=$(date +%s.%N)
  ./check $id $tier > $L/runall.$id.log 2>&1; rc=$?
  e=$(date +%s.%N)
  printf "%s rc=%d %.1fs %s\n" $id $rc $(echo "$e - $s" | bc) "$(grep -cE '^VIOLATION' $L/runall.$id.log) violations, $(grep -cE '^KNOWN-FINDING' $L/runall.$id.log) known, $(grep -cE '^INCONCLUSIVE' $L/runall.$id.log) inconclusive; $(grep -E '^\[C' $L/runall.$id.log | head -1)"
done
