//! Workload generators: signals, configurations, block sizes, sources.

use crate::prng::Rng;
use flacenc::config;
use flacenc::error::SourceError;
use flacenc::source::{Fill, Source};
use std::num::NonZeroUsize;
use std::sync::Arc;

pub const WIDTHS: [usize; 5] = [8, 12, 16, 20, 24];

#[derive(Clone, Debug)]
pub struct Audio {
    pub channels: usize,
    pub bps: usize,
    pub rate: usize,
    /// interleaved
    pub samples: Vec<i32>,
    pub recipe: String,
}

impl Audio {
    pub fn frames(&self) -> usize {
        self.samples.len() / self.channels
    }
    pub fn raw_bytes(&self) -> usize {
        self.samples.len() * ((self.bps + 7) / 8)
    }
}

pub fn smin(bps: usize) -> i32 {
    -(1i32 << (bps - 1))
}
pub fn smax(bps: usize) -> i32 {
    (1i32 << (bps - 1)) - 1
}
fn clampw(v: f64, bps: usize) -> i32 {
    let lo = smin(bps) as f64;
    let hi = smax(bps) as f64;
    v.round().clamp(lo, hi) as i32
}

pub const FAMILIES: [&str; 24] = [
    "silence",
    "dc_min",
    "dc_max",
    "dc_m1",
    "dc_p1",
    "alt2",
    "alt3",
    "alt7",
    "impulse_start",
    "impulse_mid",
    "impulse_last",
    "step",
    "sine",
    "sine_clipped",
    "sine_noise",
    "noise_full",
    "laplace",
    "tiny_noise",
    "sawtooth",
    "integrated",
    "loud_then_quiet",
    "sine_loud_noise",
    "alt_level",
    "clicks_on_floor",
];

/// One channel of `len` samples of family `fam` at width `bps`.
pub fn gen_channel(rng: &mut Rng, fam: &str, bps: usize, len: usize) -> Vec<i32> {
    let lo = smin(bps);
    let hi = smax(bps);
    let full = hi as f64;
    let mut v = vec![0i32; len];
    match fam {
        "silence" => {}
        "dc_min" => v.fill(lo),
        "dc_max" => v.fill(hi),
        "dc_m1" => v.fill(-1),
        "dc_p1" => v.fill(1),
        "alt2" | "alt3" | "alt7" => {
            let period = match fam {
                "alt2" => 2,
                "alt3" => 3,
                _ => 7,
            };
            let phase = rng.usize_below(period);
            for (t, x) in v.iter_mut().enumerate() {
                *x = if (t + phase) % period < (period + 1) / 2 { hi } else { lo };
            }
        }
        "impulse_start" | "impulse_mid" | "impulse_last" => {
            if len > 0 {
                let pos = match fam {
                    "impulse_start" => 0,
                    "impulse_mid" => len / 2,
                    _ => len - 1,
                };
                v[pos] = if rng.flip() { hi } else { lo };
            }
        }
        "step" => {
            let pos = if len > 0 { rng.usize_below(len) } else { 0 };
            let a = rng.range(lo as i64, hi as i64) as i32;
            let b = rng.range(lo as i64, hi as i64) as i32;
            for (t, x) in v.iter_mut().enumerate() {
                *x = if t < pos { a } else { b };
            }
        }
        "sine" | "sine_clipped" | "sine_noise" | "sine_loud_noise" => {
            let period = 2.0 + rng.f64() * 200.0;
            let amp = match fam {
                "sine_clipped" => full * (1.0 + rng.f64() * 2.0),
                "sine_noise" => full * (0.05 + rng.f64() * 0.5),
                "sine_loud_noise" => full * (0.3 + rng.f64() * 0.6),
                _ => full * rng.f64(),
            };
            let noise = match fam {
                "sine_noise" => full * 0.04 * rng.f64(),
                "sine_loud_noise" => full * (0.001 + 0.2 * rng.f64() * rng.f64()),
                _ => 0.0,
            };
            let ph = rng.f64() * 6.283;
            for (t, x) in v.iter_mut().enumerate() {
                let s = amp * (ph + 6.283_185_307 * t as f64 / period).sin() + noise * rng.gauss();
                *x = clampw(s, bps);
            }
        }
        "noise_full" => {
            for x in v.iter_mut() {
                *x = rng.range(lo as i64, hi as i64) as i32;
            }
        }
        "laplace" => {
            let scale = full * (0.001 + 0.3 * rng.f64() * rng.f64());
            for x in v.iter_mut() {
                *x = clampw(scale * rng.laplace(), bps);
            }
        }
        "tiny_noise" => {
            for x in v.iter_mut() {
                *x = rng.range(-1, 1) as i32;
            }
        }
        "sawtooth" => {
            let period = 2 + rng.usize_below(300);
            let amp = full * rng.f64();
            for (t, x) in v.iter_mut().enumerate() {
                let ph = (t % period) as f64 / period as f64;
                *x = clampw(amp * (2.0 * ph - 1.0), bps);
            }
        }
        "integrated" => {
            // k-th order integration of a chosen residual profile so that the fixed predictor of
            // that order leaves residuals of a chosen magnitude
            let order = rng.usize_below(5);
            let mag = 1i64 << rng.usize_below(bps.min(22));
            let mut st = [0i64; 5];
            for x in v.iter_mut() {
                let e = rng.range(-mag, mag);
                st[0] = e;
                for k in 1..=order {
                    st[k] += st[k - 1];
                }
                let s = st[order];
                if s < lo as i64 || s > hi as i64 {
                    // reflect to stay in range
                    for k in 1..=order {
                        st[k] = 0;
                    }
                }
                *x = s.clamp(lo as i64, hi as i64) as i32;
            }
        }
        "clicks_on_floor" => {
            // a low-level noise floor (+-2^k, k in 0..=6) with sparse clicks whose heights are spread
            // log-uniformly up to 2^(k+9): Rice codes with long unary parts at every quotient value
            let k = rng.usize_below(7);
            let floor = 1i64 << k;
            let every = *rng.pick(&[8usize, 16, 50, 200]);
            for x in v.iter_mut() {
                *x = rng.range(-floor, floor) as i32;
                if rng.usize_below(every) == 0 {
                    let h = (floor as f64 * (2.0f64).powf(rng.f64() * 9.0)) as i64;
                    let c = if rng.flip() { h } else { -h };
                    *x = c.clamp(lo as i64, hi as i64) as i32;
                }
            }
        }
        "alt_level" => {
            // noise whose level switches between two values every `seg` samples (non-stationary:
            // high Rice partition orders, non-unimodal cost-vs-order curves, nearly incompressible
            // blocks with a few cheap partitions)
            let seg = *rng.pick(&[32usize, 64, 64, 128, 256]);
            let a1 = full * (0.5 + 0.5 * rng.f64());
            let a2 = full * match rng.usize_below(3) {
                0 => 0.3 + 0.5 * rng.f64(),
                1 => 0.01 * rng.f64(),
                _ => rng.f64(),
            };
            let uniform = rng.flip();
            for (t, x) in v.iter_mut().enumerate() {
                let a = if (t / seg) % 2 == 0 { a1 } else { a2 };
                let n = if uniform { 2.0 * rng.f64() - 1.0 } else { 0.5 * rng.gauss() };
                *x = clampw(a * n, bps);
            }
        }
        "loud_then_quiet" => {
            let split = if len > 0 { rng.usize_below(len) } else { 0 };
            let a1 = full * (0.2 + 0.8 * rng.f64());
            let a2 = full * 0.001 * rng.f64();
            let swap = rng.flip();
            for (t, x) in v.iter_mut().enumerate() {
                let loud = (t < split) ^ swap;
                let a = if loud { a1 } else { a2 };
                *x = clampw(a * rng.gauss() * 0.4, bps);
            }
        }
        _ => panic!("unknown family {fam}"),
    }
    v
}

/// Multi-channel audio. `stereo_mode` (for 2 channels): 0 = independent families,
/// 1 = r = -l, 2 = r = -l-1, 3 = l = max r = min, 4 = r = l + small noise (correlated).
pub fn gen_audio(rng: &mut Rng, channels: usize, bps: usize, rate: usize, len: usize) -> Audio {
    let mut chans: Vec<Vec<i32>> = Vec::with_capacity(channels);
    let mut recipe = String::new();
    let stereo_mode = if channels == 2 { rng.usize_below(11) } else { 0 };
    for ch in 0..channels {
        if channels == 2 && ch == 1 && stereo_mode >= 9 {
            // the relation between the channels CHANGES inside the signal (pieces of 16..4096
            // samples): identical (dual mono), both loud independent noise, inverted, nearly
            // identical. A decision taken from the head of a block does not hold for its tail.
            let lo = smin(bps) as i64;
            let hi = smax(bps) as i64;
            let mut r = vec![0i32; len];
            let mut t = 0;
            let mut first = true;
            while t < len {
                let piece = *rng.pick(&[16usize, 64, 100, 256, 257, 300, 1000, 4096]);
                let end = (t + piece).min(len);
                let kind = if first && stereo_mode == 10 { 0 } else { rng.usize_below(4) };
                first = false;
                for i in t..end {
                    let l = chans[0][i] as i64;
                    r[i] = match kind {
                        0 => l as i32,
                        1 => {
                            chans[0][i] = rng.range(lo, hi) as i32;
                            rng.range(lo, hi) as i32
                        }
                        2 => (-l).clamp(lo, hi) as i32,
                        _ => (l + rng.range(-2, 2)).clamp(lo, hi) as i32,
                    };
                }
                t = end;
            }
            recipe.push_str("+stereo_piecewise");
            chans.push(r);
            continue;
        }
        if channels == 2 && ch == 1 && stereo_mode == 8 {
            // the RIGHT channel is the clean one: left = right + small noise (right/side wins)
            let fam = *rng.pick(&FAMILIES);
            let r = gen_channel(rng, fam, bps, len);
            let lo = smin(bps) as i64;
            let hi = smax(bps) as i64;
            chans[0] = r.iter().map(|x| (*x as i64 + rng.range(-3, 3)).clamp(lo, hi) as i32).collect();
            recipe.push_str(&format!("+stereo8({fam})"));
            chans.push(r);
            continue;
        }
        if channels == 2 && ch == 1 && (1..=4).contains(&stereo_mode) {
            let l = &chans[0];
            let lo = smin(bps) as i64;
            let hi = smax(bps) as i64;
            let r: Vec<i32> = match stereo_mode {
                1 => l.iter().map(|x| (-(*x as i64)).clamp(lo, hi) as i32).collect(),
                2 => l.iter().map(|x| (-(*x as i64) - 1).clamp(lo, hi) as i32).collect(),
                3 => {
                    chans[0] = vec![hi as i32; len];
                    vec![lo as i32; len]
                }
                _ => l
                    .iter()
                    .map(|x| (*x as i64 + rng.range(-2, 2)).clamp(lo, hi) as i32)
                    .collect(),
            };
            recipe.push_str(&format!("+stereo{stereo_mode}"));
            chans.push(r);
            continue;
        }
        let fam = *rng.pick(&FAMILIES);
        if ch > 0 {
            recipe.push('+');
        }
        recipe.push_str(fam);
        chans.push(gen_channel(rng, fam, bps, len));
    }
    let mut samples = vec![0i32; len * channels];
    for (ch, c) in chans.iter().enumerate() {
        for (t, x) in c.iter().enumerate() {
            samples[t * channels + ch] = *x;
        }
    }
    Audio {
        channels,
        bps,
        rate,
        samples,
        recipe,
    }
}

pub const BLOCK_SIZES: [usize; 20] = [
    32, 33, 63, 64, 65, 100, 191, 192, 255, 256, 257, 576, 1000, 1024, 1152, 4095, 4096, 4608,
    16384, 32767,
];

pub fn pick_block_size(rng: &mut Rng, max: usize) -> usize {
    loop {
        let b = if rng.chance(2, 3) {
            *rng.pick(&BLOCK_SIZES)
        } else {
            rng.urange(32, 32767)
        };
        if b <= max {
            return b;
        }
        if max < 32 {
            return 32;
        }
    }
}

/// Length with emphasis on block-boundary residues.
pub fn pick_len(rng: &mut Rng, block: usize, max_blocks: usize) -> usize {
    let k = rng.usize_below(max_blocks + 1);
    let r = match rng.usize_below(8) {
        0 => 0,
        1 => rng.usize_below(17),
        2 => *rng.pick(&[63usize, 64, 65]),
        3 => block - 1,
        4 => 1,
        _ => rng.usize_below(block),
    } % block;
    match rng.usize_below(12) {
        0 => 0,
        1 => 1,
        _ => k * block + r,
    }
}

pub fn pick_rate(rng: &mut Rng) -> usize {
    match rng.usize_below(6) {
        0 => *rng.pick(&[
            8000usize, 16000, 22050, 24000, 32000, 44100, 48000, 88200, 96000,
        ]),
        1 => rng.urange(1, 255) * 1000 % 96001,
        2 => rng.urange(1, 9600) * 10,
        3 => rng.urange(1, 65535),
        4 => *rng.pick(&[1usize, 9, 10, 255, 256, 999, 1000, 65535, 65536, 65540, 95999, 96000]),
        _ => rng.urange(1, 96000),
    }
    .clamp(1, 96000)
}

#[derive(Clone, Debug, Default)]
pub struct ConfigOpts {
    /// force multithread to this value (None = random)
    pub multithread: Option<bool>,
    /// maximum Rice parameter floor (to bound unary blow-ups)
    pub min_max_parameter: usize,
    /// never draw the experimental estimators, whatever the build (C20's corpus must be the same
    /// in every feature set, and is about configurations that do not enable them)
    pub no_experimental: bool,
}

pub fn tukey_alpha(rng: &mut Rng) -> f32 {
    match rng.usize_below(10) {
        0 => 0.0,
        1 => 1.0,
        2 => 1e-6,
        3 => f32::from_bits(0.4f32.to_bits() + 1),
        4 => 0.5 - 1.0 / 131072.0,
        5 => 0.5,
        _ => rng.f64() as f32,
    }
}

/// A random configuration that is valid by the documented ranges.
pub fn gen_config(rng: &mut Rng, opts: &ConfigOpts) -> config::Encoder {
    let mut c = config::Encoder::default();
    c.multithread = opts.multithread.unwrap_or_else(|| rng.chance(1, 3));
    c.workers = if rng.chance(1, 4) {
        None
    } else {
        NonZeroUsize::new(*rng.pick(&[1usize, 2, 3, 4, 7, 8, 16]))
    };
    if c.multithread && c.workers.is_none() {
        c.workers = NonZeroUsize::new(*rng.pick(&[1usize, 2, 3, 4, 8]));
    }
    // one configuration in eight is the library's own default, untouched (what most callers use;
    // its values come from the crate's constants, not from this generator)
    if rng.chance(1, 8) {
        return c;
    }
    c.stereo_coding.use_leftside = rng.chance(3, 4);
    c.stereo_coding.use_rightside = rng.chance(3, 4);
    c.stereo_coding.use_midside = rng.chance(3, 4);
    let sf = &mut c.subframe_coding;
    sf.use_constant = rng.chance(5, 6);
    sf.use_fixed = rng.chance(3, 4);
    sf.use_lpc = rng.chance(3, 4);
    sf.fixed.max_order = rng.usize_below(5);
    sf.fixed.order_sel = if rng.flip() {
        config::OrderSel::BitCount
    } else {
        config::OrderSel::ApproxEnt {
            partitions: match rng.usize_below(4) {
                0 => 1,
                1 => 64,
                2 => 16,
                _ => rng.urange(1, 64),
            },
        }
    };
    if rng.chance(4, 5) {
        // (otherwise: the default Rice limit, taken from the crate's constant)
        sf.prc.max_parameter = match rng.usize_below(4) {
            0 => 14,
            1 => rng.urange(0, 14),
            _ => rng.urange(6, 14),
        }
        .max(opts.min_max_parameter);
    }
    sf.qlpc.lpc_order = match rng.usize_below(5) {
        0 => 1,
        1 => 24,
        2 => 10,
        _ => rng.urange(1, 24),
    };
    sf.qlpc.quant_precision = match rng.usize_below(5) {
        0 => 1,
        1 => 15,
        2 => 2,
        _ => rng.urange(1, 15),
    };
    sf.qlpc.window = if rng.chance(1, 4) {
        config::Window::Rectangle
    } else {
        config::Window::Tukey {
            alpha: tukey_alpha(rng),
        }
    };
    // pass `exp`: the harness is built with the library's `experimental` feature, where the
    // direct-MSE and IRLS-MAE estimators are accepted by verification (no random draw otherwise,
    // so the other builds see the same configurations as before)
    if experimental_compiled_in() && !opts.no_experimental && rng.chance(2, 3) {
        sf.qlpc.use_direct_mse = true;
        if rng.flip() {
            sf.qlpc.mae_optimization_steps = *rng.pick(&[1usize, 1, 2, 3, 5, 8, 20]);
        }
    }
    c
}

pub fn experimental_compiled_in() -> bool {
    flacenc::constant::build_info::FEATURES.split(',').any(|f| f.trim() == "experimental")
}

pub fn describe_config(c: &config::Encoder) -> String {
    format!(
        "mt={} w={:?} st={}{}{} c{}f{}l{} fo={} sel={:?} prc={} lpc={} prec={} win={:?}",
        c.multithread,
        c.workers.map(|w| w.get()),
        u8::from(c.stereo_coding.use_leftside),
        u8::from(c.stereo_coding.use_rightside),
        u8::from(c.stereo_coding.use_midside),
        u8::from(c.subframe_coding.use_constant),
        u8::from(c.subframe_coding.use_fixed),
        u8::from(c.subframe_coding.use_lpc),
        c.subframe_coding.fixed.max_order,
        c.subframe_coding.fixed.order_sel,
        c.subframe_coding.prc.max_parameter,
        c.subframe_coding.qlpc.lpc_order,
        c.subframe_coding.qlpc.quant_precision,
        c.subframe_coding.qlpc.window,
    ) + &if c.subframe_coding.qlpc.use_direct_mse || c.subframe_coding.qlpc.mae_optimization_steps != 0 {
        format!(" mse={} mae={}", c.subframe_coding.qlpc.use_direct_mse, c.subframe_coding.qlpc.mae_optimization_steps)
    } else {
        String::new()
    }
}

// ---------------------------------------------------------------- sources

#[derive(Clone, Copy, Debug, PartialEq, Eq)]
pub enum FillMode {
    Int,
    Bytes,
    /// like Int / Bytes, but every third read is short although input remains (pipe-style
    /// source); only used by monitors whose oracle does not assume full non-final blocks
    IntShort,
    BytesShort,
    /// like Int / Bytes (full blocks), but every second read first hands over an EMPTY block and
    /// then the data inside the same read (a source chaining inner sources, see
    /// `TestSource::empty_fill_every`)
    IntChained,
    BytesChained,
    /// full blocks, delivered through `fill_interleaved` or `fill_le_bytes` from read to read (a
    /// source that switches its delivery path inside one stream; pattern i, i, b, i, b, b, ...)
    Mixed,
}

#[derive(Clone, Debug)]
pub enum Fault {
    /// the k-th read (0-based) returns Err
    ErrAt(usize),
    /// the k-th read delivers a block whose sample at (relative position 0=first,1=middle,2=last,
    /// channel) is replaced by `value` (outside the declared width)
    BadAt {
        read: usize,
        pos: u8,
        ch: usize,
        value: i32,
    },
    /// the k-th read hands over a block that is not a whole number of inter-channel samples
    /// (`extra` stray values appended; only meaningful for more than one channel)
    RaggedAt { read: usize, extra: usize },
}

/// Instrumented `Source` over in-memory audio.
#[derive(Clone, Debug)]
pub struct TestSource {
    pub audio: Arc<Audio>,
    pub pos: usize,
    pub mode: FillMode,
    pub hint: bool,
    pub reads: usize,
    pub delivered: usize,
    pub faults: Vec<Fault>,
    /// block lengths delivered
    pub log: Vec<usize>,
    /// override the values reported by channels()/bits_per_sample()/sample_rate()
    pub report: Option<(usize, usize, usize)>,
    /// bytes per sample handed to fill_le_bytes (None = ceil(bps/8))
    pub bytes_per_sample: Option<usize>,
    /// k > 0: every k-th read (1-based) delivers only half of the requested block although
    /// more input is available (a pipe / socket style source)
    pub short_reads: usize,
    /// at the end of the input return Ok(0) WITHOUT an empty fill (both styles are legal)
    pub bare_eof: bool,
    /// added to the length hint (a hint is only a hint: it may be off)
    pub hint_bias: isize,
    /// every k-th read (k > 0) first hands an EMPTY block to the destination and then the data, in
    /// the same read: what a source chaining several inner sources does when one of them ends (its
    /// last read fills nothing and returns 0, the wrapper goes on with the next one)
    pub empty_fill_every: usize,
    /// (read index, milliseconds): the source blocks that long before delivering that read
    /// (a real-time capture / network source that stalls)
    pub stall: Option<(usize, u64)>,
    /// which `SourceError` an injected read failure carries (see `source_error`)
    pub err_flavour: usize,
    /// k > 0: every k-th read first offers more samples than the block holds (see `read_samples`)
    pub overoffer_every: usize,
    pub overoffers_refused: usize,
    pub overoffers_accepted: usize,
}

pub const ERR_FLAVOURS: usize = 8;

/// The read failures a source can report: every public constructor of `SourceError`, and for the
/// I/O flavour several `io::ErrorKind`s (a transient-looking one such as `Interrupted` included -
/// what a bare `Read::read` yields on a signal). All of them are read errors to the encoder.
pub fn source_error(flavour: usize) -> SourceError {
    use flacenc::error::SourceErrorReason as R;
    use std::io::{Error, ErrorKind};
    match flavour % ERR_FLAVOURS {
        0 => SourceError::from_unknown(),
        1 => SourceError::from_io_error(Error::new(ErrorKind::Interrupted, "interrupted")),
        2 => SourceError::from_io_error(Error::new(ErrorKind::WouldBlock, "would block")),
        3 => SourceError::from_io_error(Error::new(ErrorKind::UnexpectedEof, "eof")),
        4 => SourceError::by_reason(R::InvalidFormat),
        5 => SourceError::from_io_error(Error::new(ErrorKind::TimedOut, "timed out")),
        6 => SourceError::by_reason(R::Open),
        _ => SourceError::by_reason(R::IO(None)),
    }
}

impl TestSource {
    pub fn new(audio: Arc<Audio>, mode: FillMode, hint: bool) -> Self {
        Self {
            audio,
            pos: 0,
            mode,
            hint,
            reads: 0,
            delivered: 0,
            faults: vec![],
            log: vec![],
            report: None,
            bytes_per_sample: None,
            short_reads: 0,
            bare_eof: false,
            hint_bias: 0,
            empty_fill_every: 0,
            stall: None,
            err_flavour: 0,
            overoffer_every: 0,
            overoffers_refused: 0,
            overoffers_accepted: 0,
        }
    }
    pub fn with_faults(mut self, f: Vec<Fault>) -> Self {
        self.faults = f;
        self
    }
}

pub fn to_le_bytes(samples: &[i32], bytes: usize) -> Vec<u8> {
    let mut out = Vec::with_capacity(samples.len() * bytes);
    for v in samples {
        let le = v.to_le_bytes();
        let sign = if *v < 0 { 0xFFu8 } else { 0 };
        for k in 0..bytes {
            out.push(if k < 4 { le[k] } else { sign });
        }
    }
    out
}

impl Source for TestSource {
    fn channels(&self) -> usize {
        self.report.map_or(self.audio.channels, |r| r.0)
    }
    fn bits_per_sample(&self) -> usize {
        self.report.map_or(self.audio.bps, |r| r.1)
    }
    fn sample_rate(&self) -> usize {
        self.report.map_or(self.audio.rate, |r| r.2)
    }
    fn read_samples<F: Fill>(&mut self, block_size: usize, dest: &mut F) -> Result<usize, SourceError> {
        let k = self.reads;
        self.reads += 1;
        if let Some((at, ms)) = self.stall {
            if at == k {
                // in slices: a thread that sleeps in one piece looks like a parked one to the
                // deadlock rule where /proc/<pid>/task/<tid>/syscall cannot be read; one that
                // wakes every 20 ms keeps its context-switch counter moving
                let t0 = std::time::Instant::now();
                while t0.elapsed() < std::time::Duration::from_millis(ms) {
                    std::thread::sleep(std::time::Duration::from_millis(20));
                }
            }
        }
        for f in &self.faults {
            if let Fault::ErrAt(r) = f {
                if *r == k {
                    return Err(source_error(self.err_flavour));
                }
            }
        }
        let ch = self.audio.channels;
        let total = self.audio.frames();
        if self.bare_eof && total == self.pos {
            self.log.push(0);
            return Ok(0);
        }
        let mut n = block_size.min(total - self.pos);
        let short_reads = if matches!(self.mode, FillMode::IntShort | FillMode::BytesShort) && self.short_reads == 0 { 3 } else { self.short_reads };
        if short_reads > 0 && (k + 1) % short_reads == 0 && n > 1 {
            n = (n / 2).max(1);
        }
        let slice = &self.audio.samples[self.pos * ch..(self.pos + n) * ch];
        let mut owned: Option<Vec<i32>> = None;
        for f in &self.faults {
            if let Fault::BadAt { read, pos, ch: c, value } = f {
                if *read == k && n > 0 {
                    let v = owned.get_or_insert_with(|| slice.to_vec());
                    let t = match pos {
                        0 => 0,
                        1 => n / 2,
                        _ => n - 1,
                    };
                    v[t * ch + (*c % ch)] = *value;
                }
            }
        }
        for f in &self.faults {
            if let Fault::RaggedAt { read, extra } = f {
                if *read == k && ch > 1 {
                    let v = owned.get_or_insert_with(|| slice.to_vec());
                    for _ in 0..(*extra).min(ch - 1).max(1) {
                        v.push(1);
                    }
                }
            }
        }
        let data: &[i32] = owned.as_deref().unwrap_or(slice);
        let empty_fill_every = if matches!(self.mode, FillMode::IntChained | FillMode::BytesChained) && self.empty_fill_every == 0 { 2 } else { self.empty_fill_every };
        if empty_fill_every > 0 && (k + 1) % empty_fill_every == 0 && n > 0 {
            match self.mode {
                FillMode::Mixed => dest.fill_interleaved(&[])?,
                FillMode::Int | FillMode::IntShort | FillMode::IntChained => dest.fill_interleaved(&[])?,
                FillMode::Bytes | FillMode::BytesShort | FillMode::BytesChained => dest.fill_le_bytes(&[], self.bytes_per_sample.unwrap_or((self.audio.bps + 7) / 8))?,
            }
        }
        // a packet-oriented source: every `overoffer_every`-th read it first offers the rest of its
        // packet (more than the block holds), gets the documented refusal back, and then delivers
        // a legal block. A refused offer must leave no trace (it is not part of the stream).
        if self.overoffer_every > 0 && (k + 1) % self.overoffer_every == 0 && total - self.pos > block_size && block_size > 0 {
            let m = (block_size + 1 + (k * 37) % (2 * block_size)).min(total - self.pos);
            let offer = &self.audio.samples[self.pos * ch..(self.pos + m) * ch];
            let r = if matches!(self.mode, FillMode::Bytes | FillMode::BytesShort | FillMode::BytesChained) {
                let b = self.bytes_per_sample.unwrap_or((self.audio.bps + 7) / 8);
                dest.fill_le_bytes(&to_le_bytes(offer, b), b)
            } else {
                dest.fill_interleaved(offer)
            };
            if r.is_ok() {
                // the destination took it (it should not have): then that IS what was delivered
                self.pos += m;
                self.delivered += m;
                self.log.push(m);
                self.overoffers_accepted += 1;
                return Ok(m);
            }
            self.overoffers_refused += 1;
        }
        let mode = if self.mode == FillMode::Mixed {
            if [true, true, false, true, false, false, true][k % 7] {
                FillMode::Int
            } else {
                FillMode::Bytes
            }
        } else {
            self.mode
        };
        match mode {
            FillMode::Mixed => unreachable!(),
            FillMode::Int | FillMode::IntShort | FillMode::IntChained => {
                // the integer slice handed over starts at every element offset 0..=3 of its
                // allocation in turn (4-byte aligned, but not 8- or 16-byte aligned: a caller slicing
                // into a larger buffer, an odd number of samples consumed so far)
                let off = (k + self.audio.samples.len() / 3) % 4;
                if off == 0 {
                    dest.fill_interleaved(data)?;
                } else {
                    let mut v = vec![0x5EED_i32; off];
                    v.extend_from_slice(data);
                    dest.fill_interleaved(&v[off..])?;
                }
            }
            FillMode::Bytes | FillMode::BytesShort | FillMode::BytesChained => {
                let b = self.bytes_per_sample.unwrap_or((self.audio.bps + 7) / 8);
                // the byte slice handed over starts at every alignment 0..=3 in turn (a reader
                // slicing into an I/O buffer gives no alignment guarantee)
                let off = (k + self.audio.samples.len()) % 4;
                let mut bytes = vec![0xEEu8; off];
                bytes.extend_from_slice(&to_le_bytes(data, b));
                dest.fill_le_bytes(&bytes[off..], b)?;
            }
        }
        self.pos += n;
        self.delivered += n;
        self.log.push(n);
        Ok(n)
    }
    fn len_hint(&self) -> Option<usize> {
        self.hint.then(|| (self.audio.frames() as isize + self.hint_bias).max(0) as usize)
    }
}

/// All channels from one family.
pub fn gen_audio_family(rng: &mut Rng, channels: usize, bps: usize, rate: usize, len: usize, fam: &str) -> Audio {
    let mut samples = vec![0i32; len * channels];
    for ch in 0..channels {
        let c = gen_channel(rng, fam, bps, len);
        for (t, x) in c.iter().enumerate() {
            samples[t * channels + ch] = *x;
        }
    }
    Audio {
        channels,
        bps,
        rate,
        samples,
        recipe: format!("{fam}x{channels}"),
    }
}
