//! The hook callback: coverage counters, schedule perturbation, event log, trace checker.

use crate::prng::{mix, Rng};
use std::cell::RefCell;
use std::collections::{BTreeMap, BTreeSet, HashMap};
use std::sync::atomic::{AtomicBool, AtomicU64, AtomicUsize, Ordering};
use std::sync::Mutex;
use std::time::Duration;

#[derive(Clone, Debug, PartialEq, Eq)]
pub struct Event {
    pub seq: u64,
    pub tid: u64,
    pub site: &'static str,
    pub a: usize,
    pub b: usize,
}

#[derive(Clone, Copy, Debug, PartialEq, Eq)]
pub enum Policy {
    None,
    Yield,
    RandomSleep,
    SlowWorker,
    SlowFeeder,
    SlowHasher,
    Bursty,
    SlowOneWorker,
}

pub const POLICIES: [Policy; 8] = [
    Policy::None,
    Policy::Yield,
    Policy::RandomSleep,
    Policy::SlowWorker,
    Policy::SlowFeeder,
    Policy::SlowHasher,
    Policy::Bursty,
    Policy::SlowOneWorker,
];

static RECORDING: AtomicBool = AtomicBool::new(false);
/// perturb at the hook points without recording (monitors that run many encodes concurrently in
/// one process and only want a slow hasher / slow feeder, not an event log)
static PERTURB_ONLY: AtomicBool = AtomicBool::new(false);
static POLICY: AtomicUsize = AtomicUsize::new(0);
static RUN_SEED: AtomicU64 = AtomicU64::new(0);
static LOG: Mutex<Vec<Event>> = Mutex::new(Vec::new());
static NEXT_TID: AtomicU64 = AtomicU64::new(1);
static COV: Mutex<BTreeMap<&'static str, (u64, u64, u64)>> = Mutex::new(BTreeMap::new());

thread_local! {
    static TID: u64 = NEXT_TID.fetch_add(1, Ordering::Relaxed);
    static TRNG: RefCell<Option<(u64, Rng)>> = const { RefCell::new(None) };
}

fn tid() -> u64 {
    TID.with(|t| *t)
}

fn sleep_us(us: u64) {
    if us == 0 {
        std::thread::yield_now();
    } else {
        std::thread::sleep(Duration::from_micros(us));
    }
}

fn perturb(site: &'static str, a: usize, _b: usize) {
    let pol = POLICIES[POLICY.load(Ordering::Relaxed) % POLICIES.len()];
    if pol == Policy::None {
        return;
    }
    let seed = RUN_SEED.load(Ordering::Relaxed);
    let me = tid();
    let r = TRNG.with(|c| {
        let mut c = c.borrow_mut();
        match &mut *c {
            Some((s, rng)) if *s == seed => rng.next_u64(),
            _ => {
                let mut rng = Rng(mix(seed ^ mix(crate::prng::hash_str(site))));
                let v = rng.next_u64();
                *c = Some((seed, rng));
                v
            }
        }
    });
    let _ = me;
    match pol {
        Policy::None => {}
        Policy::Yield => {
            if r & 1 == 0 {
                std::thread::yield_now();
            }
        }
        Policy::RandomSleep => {
            if r % 4 == 0 {
                sleep_us((r >> 8) % 300);
            }
        }
        Policy::SlowWorker => {
            if site == "work.encode.done" {
                sleep_us(50 + (r >> 8) % 450);
            }
        }
        Policy::SlowOneWorker => {
            // the worker that handles even frame numbers is slow: later frames overtake
            if site == "work.encode.done" && a % 2 == 0 {
                sleep_us(300 + (r >> 8) % 200);
            }
        }
        Policy::SlowFeeder => {
            if site.starts_with("feed.") && r % 2 == 0 {
                sleep_us(20 + (r >> 8) % 200);
            }
        }
        Policy::SlowHasher => {
            if site == "hash.recv.after" {
                sleep_us(100 + (r >> 8) % 400);
            }
        }
        Policy::Bursty => {
            if r % 16 == 0 {
                sleep_us(200 + (r >> 8) % 300);
            } else if r % 3 == 0 {
                std::thread::yield_now();
            }
        }
    }
}

fn callback(site: &'static str, a: usize, b: usize) {
    if site.starts_with("cov.") {
        let mut c = COV.lock().unwrap_or_else(|e| e.into_inner());
        let e = c.entry(site).or_insert((0, 0, 0));
        e.0 += 1;
        e.1 = e.1.max(a as u64);
        e.2 = e.2.max(b as u64);
        if site == "cov.subframe.choice" {
            let key: &'static str = match a {
                0 => "cov.choice.constant",
                1 => "cov.choice.verbatim",
                2 => "cov.choice.fixed",
                _ => "cov.choice.lpc",
            };
            c.entry(key).or_insert((0, 0, 0)).0 += 1;
        }
        return;
    }
    if !RECORDING.load(Ordering::Acquire) {
        if PERTURB_ONLY.load(Ordering::Acquire) {
            perturb(site, a, b);
        }
        return;
    }
    // 1. perturb (outside any harness lock)
    perturb(site, a, b);
    // 2. record; seq assigned under the log mutex => total order consistent with program order
    let me = tid();
    let mut log = LOG.lock().unwrap_or_else(|e| e.into_inner());
    let seq = log.len() as u64;
    log.push(Event {
        seq,
        tid: me,
        site,
        a,
        b,
    });
}

/// Installs the callback (idempotent).
pub fn install() {
    static ONCE: std::sync::OnceLock<bool> = std::sync::OnceLock::new();
    ONCE.get_or_init(|| flacenc::verif_hook::set(Box::new(callback)));
}

pub fn cov_snapshot() -> BTreeMap<&'static str, (u64, u64, u64)> {
    COV.lock().unwrap_or_else(|e| e.into_inner()).clone()
}
pub fn cov_count(site: &str) -> u64 {
    COV.lock()
        .unwrap_or_else(|e| e.into_inner())
        .get(site)
        .map_or(0, |e| e.0)
}

/// Starts recording a run (one par-mode call at a time per process).
pub fn begin_run(policy: Policy, seed: u64) {
    install();
    LOG.lock().unwrap_or_else(|e| e.into_inner()).clear();
    POLICY.store(POLICIES.iter().position(|p| *p == policy).unwrap_or(0), Ordering::Relaxed);
    RUN_SEED.store(seed, Ordering::Relaxed);
    RECORDING.store(true, Ordering::Release);
}

/// Process-wide perturbation without an event log (None switches it off).
pub fn perturb_only(policy: Option<Policy>, seed: u64) {
    install();
    match policy {
        Some(p) => {
            POLICY.store(POLICIES.iter().position(|x| *x == p).unwrap_or(0), Ordering::Relaxed);
            RUN_SEED.store(seed, Ordering::Relaxed);
            PERTURB_ONLY.store(true, Ordering::Release);
        }
        None => PERTURB_ONLY.store(false, Ordering::Release),
    }
}

/// Stops recording and returns the log.
pub fn end_run() -> Vec<Event> {
    RECORDING.store(false, Ordering::Release);
    std::mem::take(&mut *LOG.lock().unwrap_or_else(|e| e.into_inner()))
}

/// A copy of the log so far (for the supervisor of a hung run).
pub fn peek_log() -> Vec<Event> {
    LOG.lock().unwrap_or_else(|e| e.into_inner()).clone()
}

// ---------------------------------------------------------------- offline trace checker

#[derive(Debug, Default, Clone)]
pub struct TraceSummary {
    pub workers: usize,
    pub replicas: usize,
    pub frames_assigned: usize,
    pub frames_pushed: usize,
    /// some frame was pushed to the sink before a lower-numbered one
    pub out_of_order_push: bool,
    pub max_encode_queue: usize,
    pub max_hash_queue: usize,
    pub hash_queue_full_seen: bool,
    pub stop_tokens_consumed: usize,
    pub returned: bool,
    pub helpers_started: usize,
    pub helpers_exited: usize,
    /// hash of the log projected to (role-normalised thread, site)
    pub interleaving_hash: u64,
    pub events: usize,
}

/// Checks the protocol invariants T1..T5 on a complete event log of ONE par-mode call that
/// returned Ok. Returns violations as (rule, detail).
pub fn check_trace(log: &[Event], expect_ok: bool) -> (TraceSummary, Vec<(String, String)>) {
    let mut v: Vec<(String, String)> = vec![];
    let mut s = TraceSummary {
        events: log.len(),
        ..Default::default()
    };
    // roles
    let mut caller: Option<u64> = None;
    let mut worker_tids: BTreeMap<u64, usize> = BTreeMap::new();
    let mut hasher: Option<u64> = None;
    for e in log {
        match e.site {
            "par.enter" => {
                caller = Some(e.tid);
                s.workers = e.a;
                s.replicas = e.b;
            }
            "work.start" => {
                worker_tids.insert(e.tid, e.a);
            }
            "hash.recv.before" => hasher = Some(e.tid),
            _ => {}
        }
    }
    // interleaving hash: threads renamed by role so that OS tids do not matter
    let mut h: u64 = 0xcbf2_9ce4_8422_2325;
    for e in log {
        let role: u64 = if Some(e.tid) == caller {
            1
        } else if Some(e.tid) == hasher {
            2
        } else {
            100 + worker_tids.get(&e.tid).copied().unwrap_or(99) as u64
        };
        h ^= mix(role ^ crate::prng::hash_str(e.site).rotate_left(7));
        h = h.wrapping_mul(0x0000_0100_0000_01B3);
    }
    s.interleaving_hash = h;

    // T1: buffer ownership alternates feeder -> worker -> feeder, never overlapping
    // owner state per buffer: 0 = free/in refill queue, 1 = held by feeder (after refill.recv),
    // 2 = in encode queue, 3 = held by worker, back to 0 at work.refill.send
    let mut owner: HashMap<usize, u8> = HashMap::new();
    // T2
    let mut assigned: Vec<usize> = vec![];
    let mut assigned_buf: HashMap<usize, usize> = HashMap::new(); // frame -> buf
    let mut encoded: BTreeMap<usize, usize> = BTreeMap::new(); // frame -> count
    let mut pushed: Vec<usize> = vec![];
    // T3
    let mut stop_sent = 0usize;
    let mut stop_sent_events = 0usize;
    let mut stopped_workers: BTreeSet<u64> = BTreeSet::new();
    let mut last_block_seen_before_stop = true;
    // T4
    let mut hash_sent: Vec<usize> = vec![];
    let mut hash_recv: Vec<usize> = vec![];
    let mut hash_stop_sent = false;
    let mut hash_exited = false;
    // T5
    let mut started: BTreeSet<u64> = BTreeSet::new();
    let mut exited: BTreeSet<u64> = BTreeSet::new();
    let mut return_seq: Option<u64> = None;

    for e in log {
        match e.site {
            "feed.refill.recv.after" => {
                let st = owner.entry(e.a).or_insert(0);
                if *st != 0 {
                    v.push(("T1".into(), format!("feeder obtained buffer {} in state {} (seq {})", e.a, *st, e.seq)));
                }
                *st = 1;
            }
            "feed.frame.assign" => {
                let exp = assigned.len();
                if e.b != exp {
                    v.push(("T2".into(), format!("feeder assigned frame number {} but {} expected (seq {})", e.b, exp, e.seq)));
                }
                if owner.get(&e.a).copied().unwrap_or(0) != 1 {
                    v.push(("T1".into(), format!("frame assigned to buffer {} not held by feeder (seq {})", e.a, e.seq)));
                }
                assigned.push(e.b);
                assigned_buf.insert(e.b, e.a);
            }
            "feed.encode.send.before" => {
                s.max_encode_queue = s.max_encode_queue.max(e.b);
                let st = owner.entry(e.a).or_insert(0);
                if *st != 1 {
                    v.push(("T1".into(), format!("feeder enqueued buffer {} it does not hold (state {}, seq {})", e.a, *st, e.seq)));
                }
                *st = 2;
                if stop_sent_events > 0 {
                    last_block_seen_before_stop = false;
                }
            }
            "work.encode.recv.after" => {
                if e.a != usize::MAX {
                    let st = owner.entry(e.a).or_insert(0);
                    if *st != 2 {
                        v.push(("T1".into(), format!("worker received buffer {} in state {} (seq {})", e.a, *st, e.seq)));
                    }
                    *st = 3;
                    if stopped_workers.contains(&e.tid) {
                        v.push(("T3".into(), format!("worker tid {} received work after its stop token (seq {})", e.tid, e.seq)));
                    }
                }
            }
            "work.buf.lock" => {
                if owner.get(&e.a).copied().unwrap_or(0) != 3 {
                    v.push(("T1".into(), format!("worker locked buffer {} it does not own (seq {})", e.a, e.seq)));
                }
                if let Some(buf) = assigned_buf.get(&e.b) {
                    if *buf != e.a {
                        v.push(("T2".into(), format!("worker saw frame {} in buffer {} but it was assigned to buffer {} (seq {})", e.b, e.a, buf, e.seq)));
                    }
                } else {
                    v.push(("T2".into(), format!("worker saw frame number {} that was never assigned (seq {})", e.b, e.seq)));
                }
            }
            "work.encode.done" => {
                *encoded.entry(e.a).or_insert(0) += 1;
            }
            "work.refill.send" => {
                let st = owner.entry(e.a).or_insert(0);
                if *st != 3 {
                    v.push(("T1".into(), format!("worker returned buffer {} it does not hold (state {}, seq {})", e.a, *st, e.seq)));
                }
                *st = 0;
            }
            "work.sink.push" => {
                if let Some(last_max) = pushed.iter().max() {
                    if e.a < *last_max {
                        s.out_of_order_push = true;
                    }
                }
                pushed.push(e.a);
            }
            "feed.stop.send.before" => {
                stop_sent_events += 1;
                stop_sent += e.a;
                s.max_encode_queue = s.max_encode_queue.max(e.b);
            }
            "work.stop.recv" => {
                if !stopped_workers.insert(e.tid) {
                    v.push(("T3".into(), format!("worker tid {} consumed two stop tokens", e.tid)));
                }
            }
            "ctx.hash.send.before" => {
                s.max_hash_queue = s.max_hash_queue.max(e.b);
                if e.b >= 16 {
                    s.hash_queue_full_seen = true;
                }
                if e.a == 0 {
                    // an empty block (the source's final empty read) is itself the stop marker
                    hash_stop_sent = true;
                } else {
                    if hash_stop_sent {
                        v.push(("T4".into(), format!("block sent to hasher after the stop marker (seq {})", e.seq)));
                    }
                    hash_sent.push(e.a);
                }
            }
            "ctx.hash.stop" => {
                hash_stop_sent = true;
                s.max_hash_queue = s.max_hash_queue.max(e.a);
            }
            "hash.recv.after" => {
                if e.a != 0 {
                    hash_recv.push(e.a);
                    if hash_exited {
                        v.push(("T4".into(), "hasher received data after exiting".into()));
                    }
                }
            }
            "hash.exit" => hash_exited = true,
            "work.start" => {
                started.insert(e.tid);
            }
            "work.exit" => {
                exited.insert(e.tid);
                if e.b != 0 {
                    v.push(("T5".into(), format!("worker {} exited by unwinding (panic)", e.a)));
                }
            }
            "par.return" => {
                return_seq = Some(e.seq);
                if e.b != 0 {
                    v.push(("T5".into(), "entry point exited by unwinding (panic)".into()));
                }
            }
            _ => {}
        }
    }
    s.frames_assigned = assigned.len();
    s.frames_pushed = pushed.len();
    s.stop_tokens_consumed = stopped_workers.len();
    s.returned = return_seq.is_some();
    s.helpers_started = started.len() + usize::from(hasher.is_some());
    s.helpers_exited = exited.len() + usize::from(hash_exited);

    if expect_ok {
        // T2: exactly-once
        for f in &assigned {
            let c = encoded.get(f).copied().unwrap_or(0);
            if c != 1 {
                v.push(("T2".into(), format!("frame {f} encoded {c} times")));
            }
            let p = pushed.iter().filter(|x| *x == f).count();
            if p != 1 {
                v.push(("T2".into(), format!("frame {f} pushed to the sink {p} times")));
            }
        }
        for f in &pushed {
            if !assigned.contains(f) {
                v.push(("T2".into(), format!("frame {f} pushed but never assigned")));
            }
        }
        // T3
        if stop_sent != s.workers {
            v.push(("T3".into(), format!("{} stop tokens sent for {} workers", stop_sent, s.workers)));
        }
        if stopped_workers.len() != s.workers {
            v.push(("T3".into(), format!("{} workers consumed a stop token, {} workers exist", stopped_workers.len(), s.workers)));
        }
        if !last_block_seen_before_stop {
            v.push(("T3".into(), "a block was enqueued after the stop tokens".into()));
        }
        // T4
        if hash_sent != hash_recv {
            v.push(("T4".into(), format!("hashed block lengths {:?}.. differ from enqueued {:?}.. (FIFO/no-loss)", &hash_recv[..hash_recv.len().min(8)], &hash_sent[..hash_sent.len().min(8)])));
        }
        if !hash_stop_sent || !hash_exited {
            v.push(("T4".into(), format!("hasher stop marker sent={hash_stop_sent} exited={hash_exited}")));
        }
    }
    // T5: every helper that started has exited before the entry point's return
    if let Some(rs) = return_seq {
        for e in log {
            if e.seq > rs && e.site != "par.return" {
                v.push(("T5".into(), format!("event {} from tid {} after the entry point returned", e.site, e.tid)));
                break;
            }
        }
        for t in &started {
            if !exited.contains(t) {
                v.push(("T5".into(), format!("worker tid {t} started but had not exited when the entry point returned")));
            }
        }
        if hasher.is_some() && !hash_exited {
            v.push(("T5".into(), "hashing thread had not exited when the entry point returned".into()));
        }
    }
    (s, v)
}
