//! Supervisor for scenarios that may hang, abort or leak threads: runs batches in child
//! processes, reads one line per scenario, and decides "deadlock" from /proc state, never from
//! a deadline.

use std::collections::BTreeMap;
use std::io::{BufRead, BufReader};
use std::process::{Child, Command, Stdio};
use std::sync::mpsc;
use std::time::{Duration, Instant};

#[derive(Clone, Debug, PartialEq, Eq)]
pub struct ProcSample {
    /// tid -> (state, utime+stime, voluntary+involuntary context switches, syscall nr)
    pub tasks: BTreeMap<u32, (char, u64, u64, i64)>,
}

pub fn sample_proc(pid: u32) -> Option<ProcSample> {
    let dir = std::fs::read_dir(format!("/proc/{pid}/task")).ok()?;
    let mut tasks = BTreeMap::new();
    for e in dir.flatten() {
        let Ok(tid) = e.file_name().to_string_lossy().parse::<u32>() else { continue };
        let base = format!("/proc/{pid}/task/{tid}");
        let Ok(stat) = std::fs::read_to_string(format!("{base}/stat")) else { continue };
        // comm may contain spaces: split after the last ')'
        let Some(rp) = stat.rfind(')') else { continue };
        let f: Vec<&str> = stat[rp + 1..].split_whitespace().collect();
        if f.len() < 14 {
            continue;
        }
        let state = f[0].chars().next().unwrap_or('?');
        let utime: u64 = f[11].parse().unwrap_or(0);
        let stime: u64 = f[12].parse().unwrap_or(0);
        let mut cs = 0u64;
        if let Ok(status) = std::fs::read_to_string(format!("{base}/status")) {
            for l in status.lines() {
                if l.starts_with("voluntary_ctxt_switches") || l.starts_with("nonvoluntary_ctxt_switches") {
                    cs += l.split_whitespace().last().and_then(|x| x.parse::<u64>().ok()).unwrap_or(0);
                }
            }
        }
        let sysno = std::fs::read_to_string(format!("{base}/syscall")).ok().and_then(|s| s.split_whitespace().next().and_then(|x| x.parse::<i64>().ok())).unwrap_or(-2);
        if state == 'Z' {
            continue;
        }
        tasks.insert(tid, (state, utime + stime, cs, sysno));
    }
    Some(ProcSample { tasks })
}

/// All tasks sleeping, and every readable syscall number is futex (202 on x86-64).
fn quiescent(s: &ProcSample) -> bool {
    !s.tasks.is_empty() && s.tasks.values().all(|(st, _, _, sys)| *st == 'S' && (*sys == 202 || *sys == -2 || *sys == -1))
}

#[derive(Debug)]
pub enum ChildEvent {
    Start(u64),
    Result(u64, String),
    Other(String),
    Eof,
}

pub struct Supervised {
    pub child: Child,
    pub rx: mpsc::Receiver<ChildEvent>,
}

pub fn spawn_child(args: &[String], env: &[(String, String)], mem_gb: u64) -> std::io::Result<Supervised> {
    let exe = std::env::current_exe()?;
    let mut cmd = Command::new(exe);
    cmd.args(args).stdin(Stdio::null()).stdout(Stdio::piped()).stderr(Stdio::null());
    cmd.env("VERIF_MEM_GB", mem_gb.to_string());
    for (k, v) in env {
        cmd.env(k, v);
    }
    let mut child = cmd.spawn()?;
    let out = child.stdout.take().unwrap();
    let (tx, rx) = mpsc::channel();
    std::thread::spawn(move || {
        let r = BufReader::new(out);
        for line in r.lines() {
            let Ok(line) = line else { break };
            let ev = if let Some(rest) = line.strip_prefix("S ") {
                rest.trim().parse::<u64>().map_or(ChildEvent::Other(line.clone()), ChildEvent::Start)
            } else if let Some(rest) = line.strip_prefix("R ") {
                match rest.split_once(' ') {
                    Some((i, j)) => i.parse::<u64>().map_or(ChildEvent::Other(line.clone()), |i| ChildEvent::Result(i, j.to_string())),
                    None => ChildEvent::Other(line.clone()),
                }
            } else {
                ChildEvent::Other(line)
            };
            if tx.send(ev).is_err() {
                return;
            }
        }
        let _ = tx.send(ChildEvent::Eof);
    });
    Ok(Supervised { child, rx })
}

#[derive(Debug)]
pub enum ScenarioEnd {
    /// child reported a result line
    Result(String),
    /// observed global futex quiescence for `samples` consecutive samples
    Deadlock { threads: usize, detail: String },
    /// child died without a result (abort, OOM, signal)
    Died(String),
    /// generous wall-clock watchdog (inconclusive, never a violation)
    Watchdog,
    /// the child reported a defect of the harness itself (exit code 3): inconclusive
    HarnessError(String),
}

/// Drives one child over indices `start, start+step, ...` (count of them); calls `on_end(idx, end)`
/// for every scenario. Restarts the child after a deadlock / death.
pub fn run_batch(
    base_args: &[String],
    env: &[(String, String)],
    start: u64,
    step: u64,
    end_excl: u64,
    watchdog: Duration,
    mut on_end: impl FnMut(u64, ScenarioEnd),
) {
    let mut next = start;
    while next < end_excl {
        let mut args = base_args.to_vec();
        args.push(next.to_string());
        args.push(step.to_string());
        args.push(end_excl.to_string());
        let Ok(mut sup) = spawn_child(&args, env, 12) else {
            on_end(next, ScenarioEnd::Died("cannot spawn child".into()));
            return;
        };
        let pid = sup.child.id();
        let mut current: Option<(u64, Instant)> = None;
        let mut quiet = 0u32;
        let mut last: Option<ProcSample> = None;
        let mut finished = false;
        loop {
            match sup.rx.recv_timeout(Duration::from_millis(100)) {
                Ok(ChildEvent::Start(i)) => {
                    current = Some((i, Instant::now()));
                    quiet = 0;
                    last = None;
                }
                Ok(ChildEvent::Result(i, j)) => {
                    on_end(i, ScenarioEnd::Result(j));
                    next = i + step;
                    current = None;
                }
                Ok(ChildEvent::Other(_)) => {}
                Ok(ChildEvent::Eof) => {
                    let status = sup.child.wait().ok();
                    if let Some((i, _)) = current {
                        if status.and_then(|s| s.code()) == Some(3) {
                            on_end(i, ScenarioEnd::HarnessError("child exited with code 3 (HARNESS-ERROR) during the scenario".to_string()));
                        } else {
                            on_end(i, ScenarioEnd::Died(format!("child exited with {status:?} during the scenario")));
                        }
                        next = i + step;
                    } else {
                        finished = true;
                    }
                    break;
                }
                Err(mpsc::RecvTimeoutError::Timeout) => {
                    let Some((i, t0)) = current else { continue };
                    if let Some(s) = sample_proc(pid) {
                        let same = last.as_ref().is_some_and(|l| *l == s);
                        if same && quiescent(&s) {
                            quiet += 1;
                        } else {
                            quiet = 0;
                        }
                        if quiet >= 20 {
                            let detail = format!("{} tasks, all in state S inside futex, no CPU time or context switch for {} consecutive 100 ms samples", s.tasks.len(), quiet);
                            let _ = sup.child.kill();
                            let _ = sup.child.wait();
                            on_end(i, ScenarioEnd::Deadlock { threads: s.tasks.len(), detail });
                            next = i + step;
                            break;
                        }
                        last = Some(s);
                    }
                    if t0.elapsed() > watchdog {
                        let _ = sup.child.kill();
                        let _ = sup.child.wait();
                        on_end(i, ScenarioEnd::Watchdog);
                        next = i + step;
                        break;
                    }
                }
                Err(mpsc::RecvTimeoutError::Disconnected) => {
                    let _ = sup.child.wait();
                    if let Some((i, _)) = current {
                        on_end(i, ScenarioEnd::Died("reader disconnected".into()));
                        next = i + step;
                    } else {
                        finished = true;
                    }
                    break;
                }
            }
        }
        if finished {
            return;
        }
    }
}

pub fn os_thread_count() -> usize {
    std::fs::read_dir("/proc/self/task").map(|d| d.count()).unwrap_or(0)
}
