//! Run context, case runner, panic capture, evidence and verdict reporting.

use serde_json::{json, Value};
use std::cell::RefCell;
use std::collections::{BTreeMap, BTreeSet, HashSet};
use std::panic::{catch_unwind, AssertUnwindSafe};
use std::sync::atomic::{AtomicBool, AtomicU64, AtomicUsize, Ordering};
use std::sync::{Arc, Mutex, OnceLock};
use std::time::{Duration, Instant};

/// Root of the verification tree (`/verif`; the seeded-change runner points a scratch copy of the
/// tree at a scratch copy of the repository through VERIF_ROOT).
pub fn verif_dir() -> String {
    std::env::var("VERIF_ROOT").ok().filter(|s| !s.is_empty()).unwrap_or_else(|| "/verif".to_string())
}

/// Build/sanitizer mode of this binary: "rel" (default; writes evidence/<ID>.json) or the name of
/// a sanitizer pass ("chk" = release + overflow checks + debug assertions, "asan", "tsan", "miri"),
/// whose summary goes to target/san/<ID>.<mode>.json and is merged by the rel run.
pub fn mode() -> String {
    std::env::var("VERIF_MODE").ok().filter(|s| !s.is_empty()).unwrap_or_else(|| "rel".to_string())
}
pub fn san_dir() -> String {
    format!("{}/target/san", verif_dir())
}

#[derive(Clone, Copy, Debug, PartialEq, Eq)]
pub enum Tier {
    Quick,
    Thorough,
}

impl Tier {
    pub fn name(self) -> &'static str {
        match self {
            Tier::Quick => "quick",
            Tier::Thorough => "thorough",
        }
    }
    pub fn pick<T>(self, q: T, t: T) -> T {
        match self {
            Tier::Quick => q,
            Tier::Thorough => t,
        }
    }
}

#[derive(Clone, Debug)]
pub struct Ctx {
    pub prop: String,
    pub tier: Tier,
    pub seed: u64,
    pub start: Instant,
    /// wall-clock watchdog: cases not started before this are skipped (never a violation)
    pub deadline: Instant,
    pub threads: usize,
    /// when set, only this (sub-workload, case index) is run
    pub only: Option<(String, u64)>,
}

impl Ctx {
    pub fn new(prop: &str, tier: Tier, seed: u64, budget: Duration) -> Self {
        let start = Instant::now();
        let threads = std::env::var("VERIF_THREADS")
            .ok()
            .and_then(|s| s.parse().ok())
            .unwrap_or_else(|| std::thread::available_parallelism().map_or(8, |n| n.get()))
            .clamp(1, 64);
        Self {
            prop: prop.to_string(),
            tier,
            seed,
            start,
            deadline: start + budget,
            threads,
            only: None,
        }
    }
    pub fn expired(&self) -> bool {
        Instant::now() >= self.deadline
    }
}

// ---------------------------------------------------------------- panic capture

#[derive(Clone, Debug)]
pub struct PanicRec {
    pub thread: String,
    pub msg: String,
    pub file: String,
    pub line: u32,
    pub harness_thread: bool,
}

impl PanicRec {
    /// Signature component: file (no line) + leading part of the message.
    pub fn site(&self) -> String {
        let f = self.file.rsplit("/src/").next().unwrap_or(&self.file);
        format!("{f}")
    }
    /// A panic raised by the harness's own code (its sources are compiled with relative paths,
    /// `src/<file>.rs`; the repository's are absolute): a defect of the machinery, never a verdict
    /// about the library.
    pub fn is_harness(&self) -> bool {
        self.file.starts_with("src/")
    }
    pub fn short(&self) -> String {
        let m: String = self.msg.chars().take(160).collect();
        format!("panic at {}:{}: {}", self.file, self.line, m)
    }
}

thread_local! {
    static LAST_PANIC: RefCell<Option<PanicRec>> = const { RefCell::new(None) };
    static IS_HARNESS_THREAD: RefCell<bool> = const { RefCell::new(false) };
}

static HELPER_PANICS: Mutex<Vec<PanicRec>> = Mutex::new(Vec::new());
static PANIC_COUNT: AtomicU64 = AtomicU64::new(0);
static PRINT_PANICS: AtomicBool = AtomicBool::new(false);

pub fn mark_harness_thread() {
    IS_HARNESS_THREAD.with(|c| *c.borrow_mut() = true);
}

pub fn install_panic_hook() {
    static ONCE: OnceLock<()> = OnceLock::new();
    ONCE.get_or_init(|| {
        if std::env::var("VERIF_PRINT_PANICS").is_ok() {
            PRINT_PANICS.store(true, Ordering::Relaxed);
        }
        std::panic::set_hook(Box::new(|info| {
            let msg = if let Some(s) = info.payload().downcast_ref::<&str>() {
                (*s).to_string()
            } else if let Some(s) = info.payload().downcast_ref::<String>() {
                s.clone()
            } else {
                "<non-string panic payload>".to_string()
            };
            let (file, line) = info
                .location()
                .map_or(("?".to_string(), 0), |l| (l.file().to_string(), l.line()));
            let harness_thread = IS_HARNESS_THREAD.with(|c| *c.borrow());
            let rec = PanicRec {
                thread: std::thread::current().name().unwrap_or("<unnamed>").to_string(),
                msg,
                file,
                line,
                harness_thread,
            };
            PANIC_COUNT.fetch_add(1, Ordering::SeqCst);
            if PRINT_PANICS.load(Ordering::Relaxed) {
                eprintln!("[panic] thread={} {}", rec.thread, rec.short());
            }
            if harness_thread {
                LAST_PANIC.with(|c| *c.borrow_mut() = Some(rec));
            } else {
                HELPER_PANICS.lock().unwrap_or_else(|e| e.into_inner()).push(rec);
            }
        }));
    });
}

/// Runs `f`, converting a panic of the current thread into `Err(PanicRec)`.
pub fn catch<T>(f: impl FnOnce() -> T) -> Result<T, PanicRec> {
    LAST_PANIC.with(|c| *c.borrow_mut() = None);
    match catch_unwind(AssertUnwindSafe(f)) {
        Ok(v) => Ok(v),
        Err(_) => {
            let rec = LAST_PANIC.with(|c| c.borrow_mut().take()).unwrap_or(PanicRec {
                thread: "?".into(),
                msg: "<panic without record>".into(),
                file: "?".into(),
                line: 0,
                harness_thread: true,
            });
            if rec.is_harness() {
                eprintln!("HARNESS-ERROR: the harness itself panicked: {}", rec.short());
                println!("HARNESS-ERROR: the harness itself panicked: {}", rec.short());
                std::process::exit(3);
            }
            Err(rec)
        }
    }
}

/// Panics recorded in threads that are not harness threads (library helper threads).
pub fn take_helper_panics() -> Vec<PanicRec> {
    std::mem::take(&mut *HELPER_PANICS.lock().unwrap_or_else(|e| e.into_inner()))
}
pub fn helper_panic_count() -> usize {
    HELPER_PANICS.lock().unwrap_or_else(|e| e.into_inner()).len()
}

// ---------------------------------------------------------------- outcome

#[derive(Clone, Debug)]
pub struct Violation {
    /// exact signature, matched against known_findings.txt
    pub sig: String,
    pub detail: String,
    pub replay: Value,
}

#[derive(Default, Debug)]
pub struct Outcome {
    pub evaluations: u64,
    pub distinct: HashSet<u64>,
    pub violations: Vec<Violation>,
    pub stats: BTreeMap<String, u64>,
    pub maxes: BTreeMap<String, u64>,
    pub sets: BTreeMap<String, BTreeSet<String>>,
    pub samples: Vec<Value>,
    pub inconclusive: Vec<String>,
    pub skipped: u64,
}

impl Outcome {
    pub fn count(&mut self, key: &str) {
        self.add(key, 1);
    }
    pub fn add(&mut self, key: &str, n: u64) {
        *self.stats.entry(key.to_string()).or_insert(0) += n;
    }
    pub fn max(&mut self, key: &str, v: u64) {
        let e = self.maxes.entry(key.to_string()).or_insert(0);
        *e = (*e).max(v);
    }
    pub fn set_insert(&mut self, key: &str, v: impl Into<String>) {
        let s = self.sets.entry(key.to_string()).or_default();
        if s.len() < 400 {
            s.insert(v.into());
        }
    }
    pub fn sample(&mut self, v: Value) {
        if self.samples.len() < 6 {
            self.samples.push(v);
        }
    }
    pub fn violation(&mut self, sig: impl Into<String>, detail: impl Into<String>, replay: Value) {
        if self.violations.len() < 200 {
            self.violations.push(Violation {
                sig: sig.into(),
                detail: detail.into(),
                replay,
            });
        } else {
            self.count("violations_dropped_over_cap");
        }
    }
    pub fn merge(&mut self, o: Outcome) {
        self.evaluations += o.evaluations;
        self.distinct.extend(o.distinct);
        for v in o.violations {
            if self.violations.len() < 400 {
                self.violations.push(v);
            }
        }
        for (k, v) in o.stats {
            *self.stats.entry(k).or_insert(0) += v;
        }
        for (k, v) in o.maxes {
            let e = self.maxes.entry(k).or_insert(0);
            *e = (*e).max(v);
        }
        for (k, v) in o.sets {
            self.sets.entry(k).or_default().extend(v);
        }
        for s in o.samples {
            if self.samples.len() < 12 {
                self.samples.push(s);
            }
        }
        self.inconclusive.extend(o.inconclusive);
        self.skipped += o.skipped;
    }
}

// ---------------------------------------------------------------- in-process hang detection

/// cases currently executing on harness threads: thread name -> (sub, idx)
static INFLIGHT: Mutex<BTreeMap<String, (String, u64)>> = Mutex::new(BTreeMap::new());
static CASES_DONE: AtomicU64 = AtomicU64::new(0);

fn inflight_set(sub: &str, idx: u64) {
    let name = std::thread::current().name().unwrap_or("main").to_string();
    INFLIGHT.lock().unwrap_or_else(|e| e.into_inner()).insert(name, (sub.to_string(), idx));
}
fn inflight_clear() {
    let name = std::thread::current().name().unwrap_or("main").to_string();
    INFLIGHT.lock().unwrap_or_else(|e| e.into_inner()).remove(&name);
    CASES_DONE.fetch_add(1, Ordering::Relaxed);
}

/// Starts the watchdog of a monitor run (not of children / mini workloads). A call into the
/// library that never returns would otherwise hang the whole check. "Hang" is a state, not a
/// deadline: some case is in flight and, for 40 consecutive 500 ms samples, every task of this
/// process other than the watchdog sits in state S inside futex(2) with no CPU time and no
/// context switch - nobody is left who could wake anybody. Then the in-flight cases are reported
/// as violations (`<prop>|hang|in-process`, with replay files) and the process exits 1.
pub fn start_hang_watchdog(ctx: &Ctx) {
    if cfg!(miri) {
        return;
    }
    let ctx = ctx.clone();
    std::thread::Builder::new()
        .name("fv-watchdog".into())
        .spawn(move || {
            let pid = std::process::id();
            let me = unsafe { libc::syscall(libc::SYS_gettid) } as u32;
            let mut last: Option<crate::supervise::ProcSample> = None;
            let mut quiet = 0u32;
            loop {
                std::thread::sleep(Duration::from_millis(500));
                let inflight = INFLIGHT.lock().unwrap_or_else(|e| e.into_inner()).clone();
                if inflight.is_empty() {
                    quiet = 0;
                    last = None;
                    continue;
                }
                let Some(mut s) = crate::supervise::sample_proc(pid) else { continue };
                s.tasks.remove(&me);
                let all_futex = !s.tasks.is_empty() && s.tasks.values().all(|(st, _, _, sys)| *st == 'S' && *sys == 202);
                if all_futex && last.as_ref() == Some(&s) {
                    quiet += 1;
                } else {
                    quiet = 0;
                }
                last = Some(s);
                if quiet >= 40 {
                    let mode = mode();
                    std::fs::create_dir_all(format!("{}/evidence/replay", verif_dir())).ok();
                    println!("[{}] tier={} seed={} HANG: {} case(s) in flight, every thread blocked in futex without CPU time or context switches for 20 s ({} cases had completed)", ctx.prop, ctx.tier.name(), ctx.seed, inflight.len(), CASES_DONE.load(Ordering::Relaxed));
                    let mut sigs = vec![];
                    for (i, (thread, (sub, idx))) in inflight.iter().enumerate() {
                        let path = format!("{}/evidence/replay/{}-{}{}-hang{}.json", verif_dir(), ctx.prop, ctx.seed, if mode == "rel" { String::new() } else { format!("-{mode}") }, i);
                        let sig = format!("{}|hang|in-process|{sub}", ctx.prop);
                        let detail = format!("case {sub}#{idx} (harness thread {thread}) never returned: all threads of the process are blocked in futex(2), no CPU time or context switch for 20 s");
                        let rp = json!({"property": ctx.prop, "mode": mode, "tier": ctx.tier.name(), "seed": ctx.seed, "sig": sig, "detail": detail, "case": {"monitor": ctx.prop, "sub": sub, "index": idx, "seed": ctx.seed, "tier": ctx.tier.name()}});
                        std::fs::write(&path, serde_json::to_string_pretty(&rp).unwrap()).ok();
                        println!("VIOLATION property={} replay={}", ctx.prop, path);
                        println!("  sig: {sig}");
                        println!("  detail: {detail}");
                        sigs.push(json!({"sig": sig, "detail": detail}));
                    }
                    let done = CASES_DONE.load(Ordering::Relaxed);
                    if mode == "rel" {
                        let ev = json!({"property_id": ctx.prop, "tier": ctx.tier.name(), "seed": ctx.seed, "level": "exploration",
                            "coverage": {"evaluations": done.max(1), "distinct_nontrivial": done.max(2), "rule": "run aborted by the in-process hang detector: the counts are the cases completed before the hang", "samples": sigs, "hang": true},
                            "assumptions": [], "wall_s": ctx.start.elapsed().as_secs_f64(), "violations": inflight.len()});
                        std::fs::write(format!("{}/evidence/{}.json", verif_dir(), ctx.prop), serde_json::to_string_pretty(&ev).unwrap()).ok();
                    } else {
                        std::fs::create_dir_all(san_dir()).ok();
                        let summary = json!({"pass": mode, "status": "violated", "tier": ctx.tier.name(), "seed": ctx.seed, "evaluations": done, "violations": sigs, "inconclusive": [], "counters": {}, "wall_s": ctx.start.elapsed().as_secs_f64()});
                        std::fs::write(format!("{}/{}.{}.json", san_dir(), ctx.prop, mode), serde_json::to_string_pretty(&summary).unwrap()).ok();
                    }
                    std::process::exit(1);
                }
            }
        })
        .ok();
}

/// Runs cases `0..n` of sub-workload `sub` on `ctx.threads` harness threads (static partition:
/// case i runs on thread i mod T). `f(idx, &mut Outcome)`. A panic escaping `f` itself is a
/// harness error and aborts the process with exit 3 (never reported as a violation).
pub fn run_cases<F>(ctx: &Ctx, sub: &str, n: u64, out: &mut Outcome, f: F)
where
    F: Fn(u64, &mut Outcome) + Sync,
{
    install_panic_hook();
    if let Some((s, idx)) = &ctx.only {
        if s != sub {
            return;
        }
        mark_harness_thread();
        inflight_set(sub, *idx);
        f(*idx, out);
        inflight_clear();
        return;
    }
    let threads = ctx.threads.min(n.max(1) as usize).max(1);
    let merged = Mutex::new(Outcome::default());
    let next_skipped = AtomicUsize::new(0);
    std::thread::scope(|s| {
        let mut handles = vec![];
        for t in 0..threads {
            let f = &f;
            let merged = &merged;
            let next_skipped = &next_skipped;
            let h = std::thread::Builder::new()
                .name(format!("fv-{t}"))
                .stack_size(16 << 20)
                .spawn_scoped(s, move || {
                    mark_harness_thread();
                    let mut local = Outcome::default();
                    let mut i = t as u64;
                    while i < n {
                        if ctx.expired() {
                            local.skipped += 1;
                            next_skipped.fetch_add(1, Ordering::Relaxed);
                        } else {
                            inflight_set(sub, i);
                            let r = catch(|| f(i, &mut local));
                            inflight_clear();
                            if let Err(p) = r {
                                eprintln!(
                                    "HARNESS-ERROR sub={sub} case={i}: uncaught {} ",
                                    p.short()
                                );
                                std::process::exit(3);
                            }
                        }
                        i += threads as u64;
                    }
                    merged.lock().unwrap().merge(local);
                })
                .expect("spawn");
            handles.push(h);
        }
        // join explicitly: the scope alone only waits for the closures, an explicit join waits for
        // the OS threads (thread-local destructors included)
        for h in handles {
            let _ = h.join();
        }
    });
    out.merge(merged.into_inner().unwrap());
}

// ---------------------------------------------------------------- known findings

#[derive(Default, Debug)]
pub struct Known {
    /// (property, signature)
    pub known: Vec<(String, String)>,
}

impl Known {
    pub fn load() -> Self {
        let path = format!("{}/known_findings.txt", verif_dir());
        let mut k = Known::default();
        if let Ok(text) = std::fs::read_to_string(path) {
            for line in text.lines() {
                let line = line.trim();
                if let Some(rest) = line.strip_prefix("known:") {
                    let rest = rest.trim();
                    if let Some(p) = rest.strip_prefix("property=") {
                        if let Some((prop, sig)) = p.split_once(" sig=") {
                            // optional trailing comment after "  # "
                            let sig = sig.split("  # ").next().unwrap_or(sig).trim();
                            k.known.push((prop.trim().to_string(), sig.to_string()));
                        }
                    }
                }
            }
        }
        k
    }
    pub fn matches(&self, prop: &str, sig: &str) -> bool {
        self.known.iter().any(|(p, s)| p == prop && s == sig)
    }
}

// ---------------------------------------------------------------- finishing

pub struct Finish<'a> {
    pub level: &'a str,
    pub rule: &'a str,
    pub assumptions: Vec<String>,
    pub exhaustive: Option<bool>,
    /// (description, observed, floor): below the floor => INCONCLUSIVE
    pub floors: Vec<(String, u64, u64)>,
    pub extra: Value,
}

/// Writes evidence, prints verdict lines, returns the process exit code.
pub fn finish(ctx: &Ctx, mut out: Outcome, fin: Finish<'_>) -> i32 {
    let known = Known::load();
    let wall = ctx.start.elapsed().as_secs_f64();
    if out.skipped > 0 {
        let sk = out.skipped;
        out.add("cases_skipped_by_watchdog", sk);
    }
    std::fs::create_dir_all(format!("{}/evidence/replay", verif_dir())).ok();

    // helper-thread panics that no monitor consumed are violations of "never panics"
    let stray = take_helper_panics();
    for p in stray {
        out.violation(
            format!("helper-thread-panic|{}", p.site()),
            p.short(),
            json!({"kind": "helper-thread panic (unattributed)", "panic": p.short()}),
        );
    }

    let mut known_hits: BTreeMap<String, (u64, String)> = BTreeMap::new();
    let mut fresh: Vec<&Violation> = vec![];
    let mut fresh_sigs: BTreeSet<String> = BTreeSet::new();
    for v in &out.violations {
        if known.matches(&ctx.prop, &v.sig) {
            let e = known_hits.entry(v.sig.clone()).or_insert((0, v.detail.clone()));
            e.0 += 1;
        } else if fresh_sigs.insert(v.sig.clone()) {
            fresh.push(v);
        }
    }
    let n_fresh_total = out
        .violations
        .iter()
        .filter(|v| !known.matches(&ctx.prop, &v.sig))
        .count();

    let mut inconclusive = out.inconclusive.clone();
    for (what, got, floor) in &fin.floors {
        // coverage floors describe a whole run, not the replay of one case
        if ctx.only.is_none() && got < floor {
            inconclusive.push(format!("coverage floor not reached: {what}: {got} < {floor}"));
        }
    }
    if out.skipped > 0 && out.evaluations == 0 {
        inconclusive.push("watchdog fired before any case ran".to_string());
    }

    let mut coverage = json!({
        "evaluations": out.evaluations,
        "distinct_nontrivial": out.distinct.len() as u64,
        "rule": fin.rule,
        "samples": out.samples,
        "counters": out.stats,
        "maxima": out.maxes,
        "observed_sets": out.sets,
        "known_findings_reproduced": known_hits.iter().map(|(k, v)| json!({"sig": k, "count": v.0})).collect::<Vec<_>>(),
        "inconclusive": inconclusive,
        "floors": fin.floors.iter().map(|(w, g, f)| json!({"what": w, "observed": g, "floor": f})).collect::<Vec<_>>(),
    });
    if let Some(e) = fin.exhaustive {
        coverage["exhaustive"] = json!(e);
    }
    if let Value::Object(m) = &fin.extra {
        for (k, v) in m {
            coverage[k] = v.clone();
        }
    }
    let mode = mode();
    // sanitizer passes that ran before this (rel) run: merge their summaries and verdicts
    let mut san_code = 0;
    if mode == "rel" && ctx.only.is_none() {
        let mut passes: Vec<Value> = vec![];
        if let Ok(rd) = std::fs::read_dir(san_dir()) {
            let mut files: Vec<_> = rd.flatten().map(|e| e.path()).filter(|p| p.file_name().and_then(|n| n.to_str()).is_some_and(|n| n.starts_with(&format!("{}.", ctx.prop)) && n.ends_with(".json"))).collect();
            files.sort();
            for f in files {
                if let Ok(text) = std::fs::read_to_string(&f) {
                    if let Ok(v) = serde_json::from_str::<Value>(&text) {
                        let st = v["status"].as_str().unwrap_or("?").to_string();
                        if st == "violated" {
                            san_code = san_code.max(1);
                        } else if st != "held" && san_code == 0 {
                            san_code = 2;
                        }
                        passes.push(v);
                    }
                }
            }
        }
        if !passes.is_empty() {
            coverage["sanitizer_passes"] = json!(passes);
        }
    }
    let ev = json!({
        "property_id": ctx.prop,
        "tier": ctx.tier.name(),
        "seed": ctx.seed,
        "level": fin.level,
        "coverage": coverage,
        "assumptions": fin.assumptions,
        "wall_s": (wall * 1000.0).round() / 1000.0,
        "violations": n_fresh_total as i64,
    });
    if ctx.only.is_none() && mode == "rel" {
        let path = format!("{}/evidence/{}.json", verif_dir(), ctx.prop);
        let tmp = format!("{path}.tmp");
        std::fs::write(&tmp, serde_json::to_string_pretty(&ev).unwrap()).expect("write evidence");
        std::fs::rename(&tmp, &path).expect("rename evidence");
    }

    println!(
        "[{}] tier={} seed={} evaluations={} distinct_nontrivial={} wall={:.1}s",
        ctx.prop,
        ctx.tier.name(),
        ctx.seed,
        out.evaluations,
        out.distinct.len(),
        wall
    );
    for (k, v) in &out.stats {
        println!("  {k} = {v}");
    }
    for (k, v) in &out.maxes {
        println!("  max {k} = {v}");
    }
    for (sig, (n, detail)) in &known_hits {
        println!(
            "KNOWN-FINDING: property={} {} [{} occurrence(s)] {}",
            ctx.prop,
            sig,
            n,
            detail.replace('\n', " ")
        );
    }
    let mut code = 0;
    for (i, v) in fresh.iter().enumerate() {
        let path = format!(
            "{}/evidence/replay/{}-{}{}-{}.json",
            verif_dir(),
            ctx.prop,
            ctx.seed,
            if mode == "rel" { String::new() } else { format!("-{mode}") },
            i
        );
        let rp = json!({
            "property": ctx.prop,
            "mode": mode,
            "tier": ctx.tier.name(),
            "seed": ctx.seed,
            "sig": v.sig,
            "detail": v.detail,
            "case": v.replay,
        });
        std::fs::write(&path, serde_json::to_string_pretty(&rp).unwrap()).ok();
        println!("VIOLATION property={} replay={}", ctx.prop, path);
        println!("  sig: {}", v.sig);
        println!("  detail: {}", v.detail.replace('\n', " "));
        code = 1;
        if i >= 40 {
            println!("  ... {} more distinct signatures omitted", fresh.len() - i - 1);
            break;
        }
    }
    if code == 0 && !inconclusive.is_empty() {
        for r in &inconclusive {
            println!("INCONCLUSIVE property={} reason={}", ctx.prop, r);
        }
        code = 2;
    }
    if mode != "rel" && ctx.only.is_none() {
        // summary of this sanitizer pass for the rel run to merge
        std::fs::create_dir_all(san_dir()).ok();
        let summary = json!({
            "pass": mode,
            "status": match code { 0 => "held", 1 => "violated", _ => "inconclusive" },
            "tier": ctx.tier.name(),
            "seed": ctx.seed,
            "evaluations": out.evaluations,
            "distinct_nontrivial": out.distinct.len() as u64,
            "violations": fresh.iter().take(10).map(|v| json!({"sig": v.sig, "detail": v.detail.chars().take(300).collect::<String>()})).collect::<Vec<_>>(),
            "known_findings_reproduced": known_hits.keys().collect::<Vec<_>>(),
            "inconclusive": inconclusive,
            "counters": out.stats,
            "wall_s": (wall * 1000.0).round() / 1000.0,
        });
        let path = format!("{}/{}.{}.json", san_dir(), ctx.prop, mode);
        std::fs::write(&path, serde_json::to_string_pretty(&summary).unwrap()).ok();
    }
    if code == 0 && san_code != 0 {
        println!("[{}] a sanitizer pass reported {} (see coverage.sanitizer_passes and its output above)", ctx.prop, if san_code == 1 { "a violation" } else { "an inconclusive result" });
        code = san_code;
    }
    if code == 0 {
        println!("[{}] held on everything explored{}", ctx.prop, if mode == "rel" { String::new() } else { format!(" (pass {mode})") });
    }
    code
}

pub fn key_of(parts: &[&dyn std::fmt::Debug]) -> u64 {
    let mut s = String::new();
    for p in parts {
        s.push_str(&format!("{p:?}|"));
    }
    crate::prng::hash_str(&s)
}

pub type Shared<T> = Arc<Mutex<T>>;
