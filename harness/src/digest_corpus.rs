//! The fixed corpus of C20 (shared by the harness and the four fvdigest builds). Uses only
//! API that exists in every feature set; configurations never enable experimental options.

use crate::gen::{self, ConfigOpts, FillMode, TestSource};
use crate::prng::{self, Rng};
use flacenc::bitsink::ByteSink;
use flacenc::component::BitRepr;
use flacenc::error::Verify;
use std::sync::Arc;

pub fn digest_line(seed: u64, i: u64) -> String {
    let mut rng = Rng::for_case(seed, "C20.corpus", i);
    let bps = gen::WIDTHS[(i % 5) as usize];
    let channels = [1usize, 2, 5, 8][(i / 5 % 4) as usize];
    let block = *rng.pick(&[32usize, 64, 100, 192, 256, 576, 1024, 4096]);
    let len = (block * rng.urange(0, 3) + rng.usize_below(block)).min(24_000 / channels);
    let rate = gen::pick_rate(&mut rng);
    // a few long streams (> 1024 frames: multi-byte frame numbers, late extremes of the frame
    // sizes): the serial and the parallel path compute frame sizes differently
    let many = i % 37 == 5;
    let (channels, block, len) = if many { (1 + (i % 2) as usize, 32, 32 * rng.urange(1040, 2100) + rng.usize_below(32)) } else { (channels, block, len) };
    // a few streams with blocks of more than 65536 interleaved samples and a channel count that is
    // not a power of two (the parallel path moves whole blocks through its hashing queue; any
    // internal piece size must not show): content constant within a block, so encoding is cheap
    let big = !many && i % 41 == 13;
    let (channels, block, len) = if big {
        let ch = [3usize, 5, 6, 7][(i / 41 % 4) as usize];
        let b = if (i / 41) % 2 == 0 { 32767 } else { 65536 / ch + 5 };
        (ch, b, b + [0usize, 1, 777][(i / 41 % 3) as usize])
    } else {
        (channels, block, len)
    };
    let mut audio = if big { gen::Audio { channels, bps, rate, samples: vec![0; len * channels], recipe: "big_constant_blocks".into() } } else { gen::gen_audio(&mut rng, channels, bps, rate, len) };
    if big {
        for b0 in (0..len).step_by(block) {
            let v: Vec<i32> = (0..channels).map(|_| rng.range(gen::smin(bps) as i64, gen::smax(bps) as i64) as i32).collect();
            for t in b0..(b0 + block).min(len) {
                audio.samples[t * channels..(t + 1) * channels].copy_from_slice(&v);
            }
        }
    }
    if many {
        let up = rng.flip();
        let full = gen::smax(bps) as f64;
        for t in 0..len {
            let pos = t as f64 / len as f64;
            let env = if up { pos } else { 1.0 - pos };
            for c in 0..channels {
                audio.samples[t * channels + c] = (full * env * env * (rng.f64() * 2.0 - 1.0)) as i32;
            }
        }
        audio.recipe = format!("ramp_{}_noise", if up { "up" } else { "down" });
    }
    let audio = Arc::new(audio);
    let mut cfg = gen::gen_config(&mut rng, &ConfigOpts { no_experimental: true, ..ConfigOpts::default() });
    cfg.multithread = i % 2 == 0 || big;
    cfg.block_size = block;
    if i % 7 == 0 {
        // boundary configuration
        cfg.subframe_coding.qlpc.lpc_order = 24;
        cfg.subframe_coding.qlpc.quant_precision = 15;
        cfg.subframe_coding.fixed.max_order = 4;
        cfg.subframe_coding.prc.max_parameter = 14;
    }
    if i == 0 {
        cfg = flacenc::config::Encoder::default();
        cfg.block_size = block;
    }
    // the block-size argument is authoritative; the configuration's own field differs sometimes
    if i % 9 == 4 {
        cfg.block_size = if block == 4096 { 1152 } else { 4096 };
    }
    let desc = format!("{} {}ch {}bit len {} block {} (cfg field {}) [{}] {}", i, channels, bps, len, block, cfg.block_size, audio.recipe, gen::describe_config(&cfg));
    let ver = match cfg.into_verified() {
        Ok(v) => v,
        Err((_, e)) => return format!("{desc} => CONFIG-REJECTED {e}"),
    };
    let mut src = TestSource::new(Arc::clone(&audio), if i % 3 == 0 { FillMode::Bytes } else { FillMode::Int }, i % 4 == 0);
    // a pipe-style source: every third read is short although input remains (what the library
    // does with it may be debatable, but it must not depend on the feature set)
    if i % 11 == 3 {
        src.short_reads = 3;
        src.hint = false;
    }
    // a length hint that is off by a few samples (it is a hint), and an end of input signalled by
    // a bare Ok(0): neither may make the feature sets disagree
    if i % 13 == 7 {
        src.hint = true;
        src.hint_bias = if i % 2 == 0 { 100 } else { -3 };
    }
    if i % 5 == 2 {
        src.bare_eof = true;
    }
    // a source chaining inner sources: an empty block ahead of the data in every third read
    if i % 19 == 11 {
        src.empty_fill_every = 3;
    }
    // the library's own MemSource over a sample vector that is NOT a whole number of inter-channel
    // samples (a stray value at the end, delivered in a last read of its own): whatever the
    // library does with the stray value, it must not depend on the feature set
    let result = if i % 17 == 9 {
        let mut samples = audio.samples.clone();
        for k in 0..(1 + (i as usize / 17) % channels.max(2).min(3)).min(channels.saturating_sub(1)).max(usize::from(channels > 1)) {
            samples.push(1 + k as i32);
        }
        let msrc = flacenc::source::MemSource::from_samples(&samples, channels, bps, rate);
        flacenc::encode_with_fixed_block_size(&ver, msrc, block)
    } else {
        flacenc::encode_with_fixed_block_size(&ver, src, block)
    };
    match result {
        Ok(stream) => {
            let mut sink = ByteSink::new();
            match stream.write(&mut sink) {
                Ok(()) => format!("{desc} => {} bytes {:016x}", sink.as_slice().len(), prng::hash_bytes(sink.as_slice())),
                Err(e) => format!("{desc} => WRITE-ERROR {e}"),
            }
        }
        Err(e) => format!("{desc} => ENCODE-ERROR {e}"),
    }
}
