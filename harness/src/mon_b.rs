//! C02 (enumerated header code spaces + streams), C08, C11, C12, C14.

use crate::bitmodel::{BitVec, CountSink, SinkFault, UserSink};
use crate::common::{catch, finish, run_cases, Ctx, Finish, Outcome};
use crate::enc;
use crate::gen::{self, Audio, FillMode, TestSource};
use crate::mon_a::{drive, Sub};
use crate::mon_stream::*;
use crate::prng::{self, Rng};
use crate::refdec;
use crate::sched;
use flacenc::bitsink::{BitSink, ByteSink, MemSink};
use flacenc::component::{BitRepr, ChannelAssignment, FrameHeader, FrameOffset, MetadataBlockData, Residual, StreamInfo, SubFrame};
use flacenc::config;
use flacenc::error::{OutputError, Verify};
use flacenc::source::{Context, Fill, FrameBuf};
use serde_json::json;
use std::num::NonZeroUsize;
use std::sync::atomic::{AtomicU64, Ordering};
use std::sync::Arc;

fn rpj(ctx: &Ctx, sub: &str, idx: u64, extra: serde_json::Value) -> serde_json::Value {
    json!({"monitor": ctx.prop, "sub": sub, "index": idx, "seed": ctx.seed, "tier": ctx.tier.name(), "case": extra})
}

// ================================================================ C02

/// Encodes a DC block of `n` samples through the real frame-level entry point and returns the
/// frame bytes.
fn dc_frame_bytes(cfg: &flacenc::error::Verified<config::Encoder>, si: &StreamInfo, n: usize, number: usize, value: i32) -> Result<Vec<u8>, String> {
    let r = catch(|| -> Result<Vec<u8>, String> {
        let mut fb = FrameBuf::with_size(si.channels(), n.max(32)).map_err(|e| format!("{e}"))?;
        let data = vec![value; n * si.channels()];
        fb.fill_interleaved(&data).map_err(|e| format!("{e}"))?;
        let f = flacenc::encode_fixed_size_frame(cfg, &fb, number, si).map_err(|e| format!("{e}"))?;
        let mut sink = ByteSink::new();
        f.write(&mut sink).map_err(|e| format!("{e}"))?;
        Ok(sink.into_inner())
    });
    match r {
        Ok(x) => x,
        Err(p) => Err(p.short()),
    }
}

fn info_raw(rate: u32, channels: u32, bps: u32) -> refdec::StreamInfoRaw {
    refdec::StreamInfoRaw {
        rate,
        channels,
        bps,
        min_block: 16,
        max_block: 65535,
        ..Default::default()
    }
}

pub fn run_c02(ctx: &Ctx) -> i32 {
    let mut out = Outcome::default();
    let cfg = enc::verified(&config::Encoder::default()).unwrap();

    // (1) every block length 1..=32767 of a (final) frame
    let cfg1 = cfg.clone();
    run_cases(ctx, "blocklen", 32767, &mut out, |idx, out| {
        let n = idx as usize + 1;
        let bps = gen::WIDTHS[n % 5];
        let si = StreamInfo::new(44100, 1 + n % 2, bps).unwrap();
        let value = if n % 3 == 0 { gen::smin(bps) } else { (n as i32) % 100 - 50 };
        out.evaluations += 1;
        match dc_frame_bytes(&cfg1, &si, n, n % 5000, value) {
            Ok(bytes) => {
                let mut issues = vec![];
                let inf = info_raw(44100, 1 + (n % 2) as u32, bps as u32);
                match refdec::parse_frame(&bytes, 0, Some(&inf), None, &mut issues) {
                    Ok(fr) => {
                        out.distinct.insert(0x1_0000_0000 + n as u64);
                        out.count(&format!("blocklen_code_{}", fr.header.bs_code));
                        if fr.header.block_size != n || fr.len != bytes.len() || fr.channels.iter().any(|c| c.len() != n || c.iter().any(|v| *v != i64::from(value))) {
                            out.violation("C02|blocklen|wrong-content", format!("frame of {n} samples decodes to block size {} ({} of {} bytes used)", fr.header.block_size, fr.len, bytes.len()), rpj(ctx, "blocklen", idx, json!({"n": n})));
                        }
                        if fr.header.variable || fr.header.number != (n % 5000) as u64 {
                            out.violation("C02|blocklen|number", format!("n={n}: variable={} number={}", fr.header.variable, fr.header.number), rpj(ctx, "blocklen", idx, json!({"n": n})));
                        }
                        for i in issues {
                            out.violation(format!("C02|blocklen|{}", i.clause), format!("n={n}: {}", i.detail), rpj(ctx, "blocklen", idx, json!({"n": n})));
                        }
                    }
                    Err(i) => out.violation(format!("C02|blocklen|{}", i.clause), format!("n={n}: {}", i.detail), rpj(ctx, "blocklen", idx, json!({"n": n}))),
                }
            }
            Err(e) => out.violation("C02|blocklen|encode-failed", format!("n={n}: {e}"), rpj(ctx, "blocklen", idx, json!({"n": n}))),
        }
        if idx == 190 || idx == 4607 {
            out.sample(json!({"sub": "blocklen", "n": n}));
        }
    });

    // (2) every sample rate 1..=96000
    let cfg2 = cfg.clone();
    run_cases(ctx, "rate", 96000, &mut out, |idx, out| {
        let rate = idx as usize + 1;
        out.evaluations += 1;
        let si = match StreamInfo::new(rate, 1, 16) {
            Ok(s) => s,
            Err(e) => {
                out.violation("C02|rate|streaminfo-rejected", format!("rate {rate}: {e}"), rpj(ctx, "rate", idx, json!({"rate": rate})));
                return;
            }
        };
        match dc_frame_bytes(&cfg2, &si, 32, 0, 7) {
            Ok(bytes) => {
                let mut issues = vec![];
                let inf = info_raw(rate as u32, 1, 16);
                match refdec::parse_frame(&bytes, 0, Some(&inf), None, &mut issues) {
                    Ok(fr) => {
                        out.distinct.insert(0x2_0000_0000 + rate as u64);
                        out.count(&format!("rate_code_{}", fr.header.sr_code));
                        if fr.header.rate.unwrap_or(rate as u32) != rate as u32 {
                            out.violation("C02|rate|wrong", format!("rate {rate} coded as {:?} (code {})", fr.header.rate, fr.header.sr_code), rpj(ctx, "rate", idx, json!({"rate": rate})));
                        }
                        for i in issues {
                            out.violation(format!("C02|rate|{}", i.clause), format!("rate={rate}: {}", i.detail), rpj(ctx, "rate", idx, json!({"rate": rate})));
                        }
                    }
                    Err(i) => out.violation(format!("C02|rate|{}", i.clause), format!("rate={rate}: {}", i.detail), rpj(ctx, "rate", idx, json!({"rate": rate}))),
                }
            }
            Err(e) => out.violation("C02|rate|encode-failed", format!("rate={rate}: {e}"), rpj(ctx, "rate", idx, json!({"rate": rate}))),
        }
    });

    // (3) frame numbers. Real encoder path for [0, 2^16) and the class boundaries; header path
    // (FrameHeader::set_frame_offset + write) for the sweep / the whole 31-bit space.
    let cfg3 = cfg.clone();
    let si3 = StreamInfo::new(48000, 2, 16).unwrap();
    let mut special: Vec<u64> = vec![];
    for b in [7u32, 11, 16, 21, 26, 31] {
        for d in -2i64..=2 {
            let v = (1i64 << b) + d;
            if (0..(1i64 << 31)).contains(&v) {
                special.push(v as u64);
            }
        }
    }
    special.extend([0, 1, (1u64 << 31) - 1, (1u64 << 31) - 2]);
    let special = Arc::new(special);
    let sp = Arc::clone(&special);
    let n_real = (1u64 << 16) + special.len() as u64;
    run_cases(ctx, "framenum_encoder", n_real, &mut out, |idx, out| {
        let num = if idx < (1 << 16) { idx } else { sp[(idx - (1 << 16)) as usize] };
        out.evaluations += 1;
        match dc_frame_bytes(&cfg3, &si3, 32, num as usize, -1) {
            Ok(bytes) => {
                let mut issues = vec![];
                match refdec::parse_frame(&bytes, 0, Some(&info_raw(48000, 2, 16)), None, &mut issues) {
                    Ok(fr) => {
                        out.distinct.insert(0x3_0000_0000 + num);
                        out.count(&format!("framenum_bytes_{}", fr.header.number_len));
                        if fr.header.number != num || fr.header.variable {
                            out.violation("C02|framenum|wrong", format!("frame number {num} decodes as {} (variable={})", fr.header.number, fr.header.variable), rpj(ctx, "framenum_encoder", idx, json!({"number": num})));
                        }
                        for i in issues {
                            out.violation(format!("C02|framenum|{}", i.clause), format!("number={num}: {}", i.detail), rpj(ctx, "framenum_encoder", idx, json!({"number": num})));
                        }
                    }
                    Err(i) => out.violation(format!("C02|framenum|{}", i.clause), format!("number={num}: {}", i.detail), rpj(ctx, "framenum_encoder", idx, json!({"number": num}))),
                }
            }
            Err(e) => out.violation("C02|framenum|encode-failed", format!("number={num}: {e}"), rpj(ctx, "framenum_encoder", idx, json!({"number": num}))),
        }
    });
    // header path
    let stride: u64 = ctx.tier.pick(1021, 1);
    let chunk: u64 = 1 << 16;
    let total: u64 = 1 << 31;
    let nchunks = total / chunk;
    let checked = AtomicU64::new(0);
    run_cases(ctx, "framenum_header", nchunks, &mut out, |idx, out| {
        let lo = idx * chunk;
        let hi = lo + chunk;
        let mut h = FrameHeader::new(192, ChannelAssignment::Independent(2), 16, 44100, FrameOffset::Frame(0)).unwrap();
        let mut sink = ByteSink::new();
        let mut issues = vec![];
        let mut num = lo + (stride - lo % stride) % stride;
        let mut local = 0u64;
        while num < hi {
            h.set_frame_offset(FrameOffset::Frame(num as u32));
            sink.clear();
            let ok = h.write(&mut sink).is_ok();
            let bytes = sink.as_slice();
            issues.clear();
            let parsed = refdec::parse_frame_header(bytes, None, &mut issues);
            let good = ok
                && issues.is_empty()
                && matches!(&parsed, Ok(p) if p.number == num && !p.variable && p.header_len == bytes.len() && h.count_bits() == bytes.len() * 8);
            if !good {
                out.violation("C02|framenum-header|wrong", format!("frame number {num}: write ok={ok} parsed={parsed:?} issues={issues:?} count_bits={}", h.count_bits()), rpj(ctx, "framenum_header", idx, json!({"number": num})));
                break;
            }
            local += 1;
            num += stride;
        }
        out.evaluations += local;
        checked.fetch_add(local, Ordering::Relaxed);
        if local > 0 {
            out.distinct.insert(0x4_0000_0000 + idx);
        }
    });
    let header_numbers = checked.load(Ordering::Relaxed);

    // (4) stream-level strictness on the common workload
    let mut subs = crate::mon_a::std_subs(ctx, 60, 35);
    subs.push(crate::mon_a::short_sub(ctx));
    subs.push(crate::mon_a::shortread_sub(ctx));
    drive(ctx, subs, &[oracle_c02], &mut out, |_c, o| !o.rep.frames.is_empty());

    // (5) the metadata chain: 0..=6 application blocks added with Stream::add_metadata_block (in
    // one or several steps, interleaved with nothing else), block types 1..=126, lengths 0..4 KiB.
    // In the emitted bytes the last-block flag must be set on exactly the final block (on
    // STREAMINFO iff nothing was added), every added block must appear once, in order, with its
    // type and length, and the first frame must start right behind the chain.
    let nmeta = ctx.tier.pick(420, 12_000);
    run_cases(ctx, "metadata", nmeta, &mut out, |idx, out| {
        let mut rng = Rng::for_case(ctx.seed, "C02.metadata", idx);
        let mut case = gen_case(&mut rng, &Limits { max_samples: 1500, max_blocks: 3, max_block_size: 512, ..Limits::default() });
        if idx % 11 == 0 {
            case.audio = Arc::new(Audio { samples: vec![], ..(*case.audio).clone() });
        }
        let Ok(v) = enc::verified(&case.cfg) else { return };
        let mut src = TestSource::new(Arc::clone(&case.audio), case.mode, case.hint);
        let mut stream = match enc::encode_stream(&v, &mut src, case.block) {
            Ok(s) => s,
            Err(e) => return report_obs_err(ctx, "metadata", idx, &case, &ObsErr::Enc(e), out),
        };
        let nblocks = (idx % 7) as usize;
        let mut want: Vec<(u8, usize)> = vec![];
        for _ in 0..nblocks {
            let tag = rng.urange(1, 126) as u8;
            let len = *rng.pick(&[0usize, 1, 3, 4, 34, 255, 256, 1000, 4096]);
            let data: Vec<u8> = (0..len).map(|_| rng.next_u64() as u8).collect();
            match MetadataBlockData::new_unknown(tag, &data) {
                Ok(b) => {
                    stream.add_metadata_block(b);
                    want.push((tag, len));
                }
                Err(_) => out.count("metadata_block_refused"),
            }
        }
        let rp = || rpj(ctx, "metadata", idx, json!({"case": case.describe(), "added": want.iter().map(|(t, l)| json!([t, l])).collect::<Vec<_>>()}));
        match enc::to_bytes(&stream) {
            Ok(bytes) => {
                let rep = refdec::decode_stream(&bytes);
                out.evaluations += 1;
                out.count(&format!("metadata_chain_len_{}", want.len()));
                if !want.is_empty() {
                    out.distinct.insert(case.key() ^ (0xC02 + want.len() as u64));
                }
                let got: Vec<(u8, usize)> = rep.meta.iter().map(|m| (m.typ, m.len)).collect();
                if got != want {
                    out.violation("C02|metadata|chain-differs", format!("blocks added {want:?}, a reader following the last-block flags sees {got:?}"), rp());
                }
                if rep.info.is_last != want.is_empty() {
                    out.violation("C02|metadata|streaminfo-last-flag", format!("STREAMINFO last-block flag is {} with {} blocks following", rep.info.is_last, want.len()), rp());
                }
                for (i, m) in rep.meta.iter().enumerate() {
                    if m.is_last != (i + 1 == rep.meta.len()) {
                        out.violation("C02|metadata|last-flag", format!("block {i} of {} has last-block flag {}", rep.meta.len(), m.is_last), rp());
                    }
                }
                let expect_audio = 4 + 4 + 34 + want.iter().map(|(_, l)| 4 + l).sum::<usize>();
                if rep.audio_offset != expect_audio {
                    out.violation("C02|metadata|audio-offset", format!("frames start at byte {}, the chain ends at {expect_audio}", rep.audio_offset), rp());
                }
                let obs = Observed { stream, bytes, rep, delivered: src.delivered, reads: src.reads };
                oracle_c02(ctx, "metadata", idx, &case, &obs, out);
            }
            Err(e) => report_obs_err(ctx, "metadata", idx, &case, &ObsErr::Ser(e, crate::mon_a::stream_placeholder()), out),
        }
    });

    let framenum_exhaustive = stride == 1 && header_numbers == total;
    let fin = Finish {
        level: "exploration",
        rule: "three finite header code spaces are enumerated through the real code (block lengths 1..=32767 and sample rates 1..=96000 via encode_fixed_size_frame on a DC block; frame numbers: [0,2^16) + class boundaries via the encoder, and a stride sweep (quick: 4099, thorough: 1 = all 2^31) via FrameHeader::set_frame_offset+write), each parsed by refdec's strict header/frame parser; plus the common generated stream workload under refdec's strict mode; distinct = distinct code points / case hashes",
        assumptions: vec!["refdec implements the MUSTs of RFC 9639 and the literal wording of C02 (4-bit Rice method, no escape codes)".into()],
        exhaustive: Some(false),
        floors: vec![],
        extra: json!({
            "block_lengths_exhaustive": ctx.only.is_none() && !ctx.expired(),
            "sample_rates_exhaustive": ctx.only.is_none() && !ctx.expired(),
            "frame_numbers_header_path_checked": header_numbers,
            "frame_numbers_exhaustive": framenum_exhaustive,
            "frame_number_stride": stride,
        }),
    };
    finish(ctx, out, fin)
}

// ================================================================ C08

/// Builds a Residual with the given quotient profile. Returns None if the constructor refuses.
fn make_residual(order: usize, n: usize, warmup: usize, params: &[u8], q: &[u32], r: &[u32]) -> Result<Residual, String> {
    match catch(|| Residual::new(order, n, warmup, params, q, r)) {
        Ok(Ok(x)) => Ok(x),
        Ok(Err(e)) => Err(format!("err:{e}")),
        Err(p) => Err(format!("panic:{}", p.short())),
    }
}

/// count_bits vs a counting sink only (for components too large to materialise).
fn check_bits_counting(ctx: &Ctx, what: &str, c: &Residual, expect: u64, out: &mut Outcome, rp: serde_json::Value) {
    out.evaluations += 1;
    let counted = c.count_bits() as u64;
    let r = catch(|| {
        let mut s = CountSink::default();
        c.write(&mut s).map(|()| s.len)
    });
    match r {
        Ok(Ok(len)) => {
            if len != counted || len != expect {
                out.violation(format!("{}|count-mismatch|{what}", ctx.prop), format!("{what}: count_bits()={counted}, {len} bits written, model says {expect}"), rp);
            }
        }
        Ok(Err(e)) => out.violation(format!("{}|write-error|{what}", ctx.prop), format!("{e}"), rp),
        Err(p) => out.violation(format!("{}|write-panic|{what}|{}", ctx.prop, p.site()), p.short(), rp),
    }
}

pub fn run_c08(ctx: &Ctx) -> i32 {
    let mut out = Outcome::default();
    sched::install();
    // (a) encoder- and (b) parser-produced trees
    let n = ctx.tier.pick(1400, 50_000);
    run_cases(ctx, "streams", n, &mut out, |idx, out| {
        let mut rng = Rng::for_case(ctx.seed, "C08.streams", idx);
        let case = match idx % 5 {
            0 => crate::mon_a::loud_case(&mut rng, 6000),
            1 => crate::mon_a::side_case(&mut rng, 6000),
            2 => crate::mon_a::rice_case(&mut rng, 12_000),
            _ => gen_case(&mut rng, &Limits { max_samples: 12_000, ..Limits::default() }),
        };
        if idx % 4 == 3 {
            crate::poison::failing_writes(&mut Rng::for_case(ctx.seed, "poison", idx));
            out.count("cases_checked_after_failed_writes_on_the_thread");
        }
        match observe(&case) {
            Ok(obs) => {
                out.distinct.insert(case.key());
                let d = case.describe();
                oracle_c08_stream(ctx, "streams", idx, &d, &obs.stream, out);
                // parser-produced tree
                type NomErr<'a> = nom::error::Error<&'a [u8]>;
                if idx % 3 == 0 {
                    if let Ok(Ok((_, s2))) = catch(|| flacenc::component::parser::stream::<NomErr<'_>>(&obs.bytes)) {
                        out.count("parsed_trees_checked");
                        oracle_c08_stream(ctx, "streams", idx, &d, &s2, out);
                    }
                }
                if idx < 2 {
                    out.sample(json!({"sub": "streams", "case": d, "stream_bits": obs.stream.count_bits()}));
                }
            }
            Err(e) => report_obs_err(ctx, "streams", idx, &case, &e, out),
        }
    });
    // (b') streams assembled with the public constructors (every partition order, predictor orders
    // up to the first partition's length, LPC coefficient vectors with zero taps): counted like
    // the encoder's, as constructed and as the parser returns them
    let n = ctx.tier.pick(1200, 40_000);
    run_cases(ctx, "built", n, &mut out, |idx, out| {
        let mut rng = Rng::for_case(ctx.seed, "C08.built", idx);
        let Some((case, stream)) = crate::mon_a::constructed_stream(&mut rng) else {
            out.count("built_skipped");
            return;
        };
        out.distinct.insert(case.key() ^ 0xB017);
        let d = case.describe();
        oracle_c08_stream(ctx, "built", idx, &d, &stream, out);
        if case.audio.recipe.contains("zero-taps") {
            out.count("built_streams_with_zero_lpc_taps");
        }
        if idx % 2 == 0 {
            type NomErr<'a> = nom::error::Error<&'a [u8]>;
            if let Ok(bytes) = enc::to_bytes(&stream) {
                if let Ok(Ok((_, s2))) = catch(|| flacenc::component::parser::stream::<NomErr<'_>>(&bytes)) {
                    out.count("built_parsed_trees_checked");
                    oracle_c08_stream(ctx, "built", idx, &d, &s2, out);
                }
            }
        }
    });
    // (c) constructed residuals
    let n = ctx.tier.pick(12_000, 400_000);
    run_cases(ctx, "residual", n, &mut out, |idx, out| {
        let mut rng = Rng::for_case(ctx.seed, "C08.residual", idx);
        let order = rng.usize_below(9);
        let parts = 1usize << order;
        let plen = *rng.pick(&[1usize, 2, 3, 16, 33, 64, 65]);
        let n = (parts * plen).min(32767 / parts * parts).max(parts);
        let plen = n / parts;
        let warmup = rng.usize_below(33).min(plen);
        let params: Vec<u8> = (0..parts).map(|_| rng.usize_below(15) as u8).collect();
        let mut q = vec![0u32; n];
        let mut r = vec![0u32; n];
        // profile
        let profile = rng.usize_below(8);
        let big: u64 = match profile {
            0 | 1 | 2 => 0,
            3 => (u64::from(u32::MAX) / n as u64).saturating_sub(1), // just below the switch
            4 => u64::from(u32::MAX) / n as u64,                     // at
            5 => u64::from(u32::MAX) / n as u64 + 1,                 // above
            6 => 1 << 20,
            _ => u64::from(u32::MAX),
        };
        for t in warmup..n {
            let p = params[t / plen];
            r[t] = (rng.next_u64() as u32) & ((1u32 << p) - 1);
            q[t] = match profile {
                0 => 0,
                1 => rng.usize_below(3) as u32,
                2 => {
                    // up to 300, with extra weight on the word-size boundaries of one Rice code
                    match rng.usize_below(6) {
                        0 => (64i64 - i64::from(p) + rng.range(-2, 2)).max(0) as u32,
                        1 => (32i64 - i64::from(p) + rng.range(-2, 2)).max(0) as u32,
                        _ => rng.usize_below(300) as u32,
                    }
                }
                7 => {
                    if rng.chance(1, 8) { big as u32 } else { rng.usize_below(4) as u32 }
                }
                _ => 0,
            };
        }
        if (3..=6).contains(&profile) && n > warmup {
            // one maximal quotient (the switch looks at max * n), the rest small, or many of them
            let pos = warmup + rng.usize_below(n - warmup);
            q[pos] = big.min(u64::from(u32::MAX)) as u32;
            if rng.flip() {
                for t in warmup..n {
                    if rng.chance(1, 4) {
                        q[t] = (big.min(u64::from(u32::MAX)) as u32).saturating_sub(rng.usize_below(3) as u32);
                    }
                }
            }
        }
        // one case in eight leaves Rice codes in the warm-up slots (which are never written): the
        // constructor may refuse that; if it accepts, the count must still be what is written
        let dirty_warmup = warmup > 0 && rng.chance(1, 8);
        if dirty_warmup {
            for t in 0..warmup {
                q[t] = 1 + rng.usize_below(200) as u32;
                r[t] = rng.usize_below(2) as u32;
            }
        }
        let desc = json!({"order": order, "n": n, "warmup": warmup, "profile": profile, "params": params.iter().take(8).collect::<Vec<_>>(), "max_q": q.iter().max(), "codes_in_warmup_slots": dirty_warmup});
        let res = match make_residual(order, n, warmup, &params, &q, &r) {
            Ok(x) => x,
            Err(e) => {
                if e.starts_with("panic") {
                    out.violation("C08|residual-constructor-panic", e, rpj(ctx, "residual", idx, desc));
                } else {
                    out.count("residual_constructor_refused");
                }
                return;
            }
        };
        // own model of the coded size
        let mut expect: u64 = 6;
        for part in 0..parts {
            expect += 4;
            let s = (part * plen).max(warmup);
            let e = (part + 1) * plen;
            for t in s..e {
                expect += u64::from(q[t]) + u64::from(params[part]) + 1;
            }
        }
        out.distinct.insert(prng::hash_str(&desc.to_string()));
        if expect > enc::SERIALISE_CAP_BITS as u64 {
            out.count("residuals_checked_with_counting_sink");
            check_bits_counting(ctx, "Residual", &res, expect, out, rpj(ctx, "residual", idx, desc.clone()));
        } else {
            let rp = || rpj(ctx, "residual", idx, desc.clone());
            check_bits(ctx, "Residual", &res, out, &rp);
            if res.count_bits() as u64 != expect {
                out.violation("C08|count-mismatch|Residual-model", format!("count_bits()={} but the harness's own size model says {expect}", res.count_bits()), rp());
            }
        }
        if idx < 2 {
            out.sample(json!({"sub": "residual", "case": desc, "bits": expect}));
        }
    });
    // thorough: real in-memory sinks for a few giant residuals (512 MiB of zero bits)
    if ctx.tier == crate::common::Tier::Thorough {
        run_cases(ctx, "residual_giant", 4, &mut out, |idx, out| {
            let n = 4096usize;
            let mut q = vec![0u32; n];
            let r = vec![0u32; n];
            for t in 0..n {
                q[t] = (1 << 20) + idx as u32;
            }
            if let Ok(res) = make_residual(0, n, 0, &[0], &q, &r) {
                out.evaluations += 1;
                let counted = res.count_bits();
                let w = catch(|| {
                    let mut s = MemSink::<u64>::new();
                    res.write(&mut s).map(|()| s.len())
                });
                match w {
                    Ok(Ok(len)) => {
                        out.count("giant_residuals_written_to_MemSink_u64");
                        if len != counted {
                            out.violation("C08|count-mismatch|Residual-giant", format!("count_bits()={counted} but {len} bits written"), rpj(ctx, "residual_giant", idx, json!({"n": n})));
                        }
                    }
                    Ok(Err(e)) => out.violation("C08|write-error|Residual-giant", format!("{e}"), rpj(ctx, "residual_giant", idx, json!({}))),
                    Err(p) => out.violation(format!("C08|write-panic|Residual-giant|{}", p.site()), p.short(), rpj(ctx, "residual_giant", idx, json!({}))),
                }
            }
        });
    }
    // (d) frame headers: block sizes, rates, frame / sample numbers at coding boundaries
    let mut numbers: Vec<u64> = vec![0, 1];
    for b in [7u32, 11, 16, 21, 26, 31, 36] {
        for d in -2i64..=2 {
            let v = (1i64 << b) + d;
            if v >= 0 && v < (1i64 << 36) {
                numbers.push(v as u64);
            }
        }
    }
    let numbers = Arc::new(numbers);
    let nh = ctx.tier.pick(80_000, 1_200_000);
    let nm = Arc::clone(&numbers);
    run_cases(ctx, "header", nh, &mut out, |idx, out| {
        let mut rng = Rng::for_case(ctx.seed, "C08.header", idx);
        let bs = if idx < 32767 { idx as usize + 1 } else { rng.urange(1, 32767) };
        let rate = if rng.flip() { rng.urange(1, 96000) } else { gen::pick_rate(&mut rng) };
        let bps = *rng.pick(&gen::WIDTHS);
        let ch = match rng.usize_below(4) {
            0 => ChannelAssignment::LeftSide,
            1 => ChannelAssignment::MidSide,
            2 => ChannelAssignment::RightSide,
            _ => ChannelAssignment::Independent(rng.urange(1, 8) as u8),
        };
        let num = if rng.chance(1, 3) { *rng.pick(&nm) } else { rng.next_u64() >> rng.urange(28, 63) };
        let off = if rng.flip() { FrameOffset::Frame((num & 0x7FFF_FFFF) as u32) } else { FrameOffset::StartSample(num & 0xF_FFFF_FFFF) };
        let desc = json!({"block": bs, "rate": rate, "bps": bps, "ch": format!("{ch:?}"), "offset": format!("{off:?}")});
        if idx % 16 == 7 {
            crate::poison::failing_writes(&mut Rng::for_case(ctx.seed, "poison", idx));
            out.count("cases_checked_after_failed_writes_on_the_thread");
        }
        match catch(|| FrameHeader::new(bs, ch.clone(), bps, rate, off)) {
            Ok(Ok(h)) => {
                out.distinct.insert(prng::hash_str(&desc.to_string()));
                let rp = || rpj(ctx, "header", idx, desc.clone());
                check_bits(ctx, "FrameHeader", &h, out, &rp);
            }
            Ok(Err(_)) => out.count("header_constructor_refused"),
            Err(p) => out.violation(format!("C08|header-constructor-panic|{}", p.site()), p.short(), rpj(ctx, "header", idx, desc)),
        }
    });
    // (f) components only the PARSER can produce: residuals written by an independent bit writer
    // (method 00 and 01 = 5-bit "RICE2" parameters up to 30, random partition orders / quotients),
    // and frames with re-coded frame/sample numbers and flipped blocking-strategy bit
    // (mon_d::craft_frame, CRCs recomputed). Whatever the parser accepts must report the bits it
    // writes.
    let nfor = ctx.tier.pick(6000, 200_000);
    let bases = Arc::new(crate::mon_d::base_streams(ctx.seed, 8));
    let bs = Arc::clone(&bases);
    run_cases(ctx, "foreign", nfor, &mut out, |idx, out| {
        let mut rng = Rng::for_case(ctx.seed, "C08.foreign", idx);
        type BitErr<'a> = nom::error::Error<(&'a [u8], usize)>;
        type ByteErr<'a> = nom::error::Error<&'a [u8]>;
        if idx % 3 != 0 {
            let order = rng.usize_below(5);
            let parts = 1usize << order;
            let plen = *rng.pick(&[4usize, 16, 33, 64]);
            // one block size in eight is not a multiple of the partition count (not valid FLAC either)
            let n = parts * plen + if parts > 1 && rng.chance(1, 8) { 1 + rng.usize_below(parts - 1) } else { 0 };
            // mostly a legal warm-up; one case in six claims a predictor order LONGER than a
            // partition (not valid FLAC: the parser may refuse it - if it accepts it, the counts
            // of what it built must still be right)
            let warmup = if rng.chance(1, 6) { plen + 1 + rng.usize_below(3) } else { rng.usize_below(5).min(plen) };
            let warmup = warmup.min(n);
            let method2 = rng.chance(2, 3);
            let maxp = if method2 { 30 } else { 14 };
            let mut m = BitVec::new();
            m.push_lsbs(u64::from(method2), 2);
            m.push_lsbs(order as u64, 4);
            let mut params = vec![];
            for part in 0..parts {
                let p = if rng.chance(1, 3) { rng.usize_below(maxp + 1) } else { rng.usize_below(15.min(maxp + 1)) };
                params.push(p);
                m.push_lsbs(p as u64, if method2 { 5 } else { 4 });
                let s = (part * plen).max(warmup);
                for _ in s..(part + 1) * plen {
                    let q = if rng.chance(1, 20) { rng.usize_below(70) } else { rng.usize_below(4) };
                    m.push_zeros(q);
                    m.push_lsbs(1, 1);
                    if p > 0 {
                        m.push_lsbs(rng.next_u64() & ((1u64 << p) - 1), p);
                    }
                }
            }
            let mut bytes = m.bytes.clone();
            bytes.extend_from_slice(&[0u8; 8]);
            let desc = json!({"foreign": "residual", "method": if method2 { "01 (5-bit parameters)" } else { "00" }, "order": order, "n": n, "warmup": warmup, "params": params.iter().take(8).collect::<Vec<_>>()});
            let r = catch(|| {
                let mut p = flacenc::component::parser::residual::<BitErr<'_>>(n, warmup);
                p((&bytes[..], 0)).ok().map(|(_, x)| x)
            });
            match r {
                Ok(Some(res)) => {
                    out.count(if method2 { "foreign_rice2_residuals_accepted" } else { "foreign_rice1_residuals_accepted" });
                    out.distinct.insert(prng::hash_str(&desc.to_string()));
                    let rp = || rpj(ctx, "foreign", idx, desc.clone());
                    check_bits(ctx, "Residual(parsed)", &res, out, &rp);
                }
                Ok(None) => out.count("foreign_residuals_rejected_by_the_parser"),
                Err(p) => out.violation(format!("C08|parser-panic|{}", p.site()), p.short(), rpj(ctx, "foreign", idx, desc)),
            }
        } else if !bs.is_empty() {
            let base = &bs[rng.usize_below(bs.len())];
            let fi = rng.usize_below(base.frames.len());
            let fr = crate::mon_d::craft_frame(base, fi, rng.chance(2, 3), &mut rng);
            let desc = json!({"foreign": "frame with re-coded number / blocking bit", "base": base.desc, "frame": fi, "header_hex": fr.iter().take(16).map(|b| format!("{b:02x}")).collect::<String>()});
            let si = refdec::parse_streaminfo(&base.bytes[8..42]);
            let Ok(sinfo) = StreamInfo::new(si.rate as usize, si.channels as usize, si.bps as usize) else { return };
            let r = catch(|| {
                let mut p = flacenc::component::parser::frame::<ByteErr<'_>>(&sinfo, true);
                p(&fr[..]).ok().map(|(_, x)| x)
            });
            match r {
                Ok(Some(f)) => {
                    out.count("foreign_frames_accepted");
                    out.distinct.insert(prng::hash_bytes(&fr));
                    let rp = || rpj(ctx, "foreign", idx, desc.clone());
                    check_bits(ctx, "Frame(parsed)", &f, out, &rp);
                    check_bits(ctx, "FrameHeader(parsed)", f.header(), out, &rp);
                }
                Ok(None) => out.count("foreign_frames_rejected_by_the_parser"),
                Err(p) => out.violation(format!("C08|parser-panic|{}", p.site()), p.short(), rpj(ctx, "foreign", idx, desc)),
            }
        }
    });
    // (g) whole VARIABLE-blocksize streams, which only the parser can produce: an emitted stream is
    // re-written frame by frame (blocking bit set, start-sample numbers of 1..=7 coded bytes in
    // place of the frame numbers, CRCs recomputed; mon_d::variable_blocking). Whatever
    // parser::stream accepts must verify as the variable-blocksize stream it is, report the bits
    // it writes (stream, every frame, every header) and re-serialise to the bytes it was parsed from;
    // the same stream with ONE wrong start-sample number may parse, but must not verify.
    let nvar = ctx.tier.pick(240, 8000);
    let bs2 = Arc::clone(&bases);
    run_cases(ctx, "varstream", nvar, &mut out, |idx, out| {
        let mut rng = Rng::for_case(ctx.seed, "C08.varstream", idx);
        type ByteErr<'a> = nom::error::Error<&'a [u8]>;
        if bs2.is_empty() {
            return;
        }
        let base = &bs2[rng.usize_below(bs2.len())];
        let rep0 = refdec::decode_stream(&base.bytes);
        if rep0.fatal().is_some() || rep0.frames.len() != base.frames.len() {
            return;
        }
        let sizes: Vec<usize> = rep0.frames.iter().map(|f| f.header.block_size).collect();
        let total: u64 = sizes.iter().map(|x| *x as u64).sum();
        // offsets that push the start-sample numbers into every code length (the total-samples
        // field of STREAMINFO is left alone: nothing relates the two in the format)
        let offset = match idx % 8 {
            0 => 0,
            1 => 0x7F_u64.saturating_sub(total / 2),
            2 => (1 << 11) - 1,
            3 => (1 << 16) - 3,
            4 => (1 << 21) - 2,
            5 => (1 << 26) - 1,
            6 => (1 << 31) - 5,
            _ => (1u64 << 36) - 1 - total,
        };
        let broken = idx % 5 == 4 && base.frames.len() >= 2;
        let bytes = crate::mon_d::variable_blocking(base, &sizes, if broken { 0 } else { offset }, broken.then(|| 1 + rng.usize_below(base.frames.len() - 1)));
        let desc = json!({"varstream": base.desc, "frames": sizes.len(), "first_start_sample": offset, "one_wrong_start_sample": broken});
        let rp = || rpj(ctx, "varstream", idx, desc.clone());
        out.evaluations += 1;
        let r = catch(|| flacenc::component::parser::stream::<ByteErr<'_>>(&bytes).ok().map(|(rest, s)| (rest.len(), s)));
        match r {
            Ok(Some((rest, s))) => {
                out.count("variable_streams_accepted_by_the_parser");
                out.distinct.insert(prng::hash_bytes(&bytes));
                let ver = catch(|| s.verify());
                match (&ver, broken) {
                    (Err(p), _) => out.violation(format!("C08|varstream|verify-panic|{}", p.site()), p.short(), rp()),
                    (Ok(Ok(())), true) => out.violation("C08|varstream|verifies-with-wrong-start-sample", "a variable-blocksize stream whose frame states a start sample that is not the sum of the preceding block sizes verifies".to_string(), rp()),
                    (Ok(Err(e)), false) if offset == 0 => out.violation("C08|varstream|does-not-verify", format!("a well-formed variable-blocksize stream does not verify: {e}"), rp()),
                    _ => {}
                }
                if broken {
                    return;
                }
                if rest != 0 {
                    out.violation("C08|varstream|unconsumed", format!("{rest} bytes left"), rp());
                }
                check_bits(ctx, "Stream(parsed,variable)", &s, out, &rp);
                for i in 0..s.frame_count() {
                    if let Some(f) = s.frame(i) {
                        check_bits(ctx, "Frame(parsed,variable)", f, out, &rp);
                        check_bits(ctx, "FrameHeader(parsed,variable)", f.header(), out, &rp);
                    }
                }
                match enc::to_bytes(&s) {
                    Ok(b2) if b2 == bytes => {}
                    Ok(b2) => out.violation("C08|varstream|reserialisation-differs", format!("{} bytes written for a stream parsed from {} bytes (first difference at {:?})", b2.len(), bytes.len(), b2.iter().zip(bytes.iter()).position(|(a, b)| a != b)), rp()),
                    Err(e) => out.violation("C08|varstream|write-failed", format!("{e:?}").chars().take(200).collect::<String>(), rp()),
                }
            }
            Ok(None) => out.count("variable_streams_rejected_by_the_parser"),
            Err(p) => out.violation(format!("C08|parser-panic|{}", p.site()), p.short(), rp()),
        }
    });
    // (e) metadata blocks
    run_cases(ctx, "metadata", 300, &mut out, |idx, out| {
        let mut rng = Rng::for_case(ctx.seed, "C08.metadata", idx);
        let len = *rng.pick(&[0usize, 1, 2, 33, 255, 256, 4097]);
        let data: Vec<u8> = (0..len).map(|_| rng.next_u64() as u8).collect();
        let md = MetadataBlockData::new_unknown(rng.urange(1, 126) as u8, &data).unwrap();
        let rp = || rpj(ctx, "metadata", idx, json!({"len": len}));
        check_bits(ctx, "MetadataBlockData", &md, out, &rp);
        let si = StreamInfo::new(gen::pick_rate(&mut rng), rng.urange(1, 8), *rng.pick(&gen::WIDTHS)).unwrap();
        let md2: MetadataBlockData = si.into();
        check_bits(ctx, "MetadataBlockData", &md2, out, &rp);
        // a whole stream carrying 1-3 extra metadata blocks (encoder output never has them), as
        // constructed and as the parser returns it
        if let Ok(mut stream) = flacenc::component::Stream::new(44100, 2, 16) {
            for _ in 0..1 + rng.usize_below(3) {
                let l = *rng.pick(&[0usize, 1, 5, 33, 300]);
                let d: Vec<u8> = (0..l).map(|_| rng.next_u64() as u8).collect();
                if let Ok(b) = MetadataBlockData::new_unknown(rng.urange(1, 126) as u8, &d) {
                    stream.add_metadata_block(b);
                }
            }
            check_bits(ctx, "Stream(with metadata)", &stream, out, &rp);
            if let Ok(bytes) = enc::to_bytes(&stream) {
                type NomErr<'a> = nom::error::Error<&'a [u8]>;
                if let Ok(Ok((_, s2))) = catch(|| flacenc::component::parser::stream::<NomErr<'_>>(&bytes)) {
                    check_bits(ctx, "Stream(with metadata, parsed)", &s2, out, &rp);
                }
            }
        }
        out.distinct.insert(0x77_0000 + idx);
    });
    // (g) blocks whose Rice quotient sum is k * 2^32 + delta (see C09 'wrap32'): the encoder must
    // not keep such a candidate; if it does, the frame's count and its written bits disagree
    run_cases(ctx, "wrap32", ctx.tier.pick(4, 24), &mut out, |idx, out| {
        let mut rng = Rng::for_case(ctx.seed, "C08.wrap32", idx);
        let Some(case) = crate::mon_a::wrap32_case(&mut rng, idx) else { return };
        match observe(&case) {
            Ok(obs) => {
                out.count("sub_wrap32");
                out.distinct.insert(case.key());
                oracle_c08_stream(ctx, "wrap32", idx, &case.describe(), &obs.stream, out);
            }
            Err(e) => report_obs_err(ctx, "wrap32", idx, &case, &e, out),
        }
    });
    let simd = sched::cov_count("cov.residual.simdsum");
    let scalar = sched::cov_count("cov.residual.scalarsum");
    let fin = Finish {
        level: "exploration",
        rule: "for every component (Stream, StreamInfo, MetadataBlockData, Frame before/after precompute, FrameHeader, ChannelAssignment, SubFrame and its 4 variants, Residual) from the encoder, the parser and public constructors: count_bits() == bits written into MemSink<u8> == MemSink<u64> == a user sink with only the required methods (identical bits); constructed residuals span partition orders 0..=8, parameters 0..=14, warm-up 0..=32 and quotient profiles straddling the SIMD/scalar sum switch at max_q*n = 2^32 and sums above 2^32 (counting sink); evaluations = components checked",
        assumptions: vec!["components above the 64 MiB serialisation cap are checked with a counting sink against count_bits() and the harness's own size model".into()],
        exhaustive: None,
        floors: vec![
            ("Residual::from_parts took the SIMD quotient sum (hook)".into(), simd, 100),
            ("Residual::from_parts took the scalar quotient sum (hook)".into(), scalar, 100),
        ],
        extra: json!({"hook_simdsum": simd, "hook_scalarsum": scalar}),
    };
    finish(ctx, out, fin)
}

// ================================================================ C11

#[derive(Clone, Debug)]
enum Op {
    Write(u8, u64),          // type log2 bytes (0..=3), value
    Msbs(u8, u64, usize),
    Lsbs(u8, u64, usize),
    Twoc(u8, i64, usize),
    Zeros(usize),
    Align,
    Bytes(Vec<u8>),
}

fn tbits(t: u8) -> usize {
    8usize << t
}
fn tmask(t: u8) -> u64 {
    if t == 3 { u64::MAX } else { (1u64 << tbits(t)) - 1 }
}

fn apply_model(m: &mut BitVec, op: &Op) {
    match op {
        Op::Write(t, v) => m.push_lsbs(v & tmask(*t), tbits(*t)),
        Op::Msbs(t, v, n) => {
            let v = v & tmask(*t);
            if *n > 0 {
                m.push_lsbs(v >> (tbits(*t) - n), *n);
            }
        }
        Op::Lsbs(t, v, n) => m.push_lsbs(v & tmask(*t), *n),
        Op::Twoc(_t, v, n) => m.push_lsbs(*v as u64, *n),
        Op::Zeros(n) => m.push_zeros(*n),
        Op::Align => {
            m.align();
        }
        Op::Bytes(b) => {
            m.align();
            for x in b {
                m.push_lsbs(u64::from(*x), 8);
            }
        }
    }
}

fn apply_sink<S: BitSink>(s: &mut S, op: &Op) -> Result<(), S::Error> {
    match op {
        Op::Write(t, v) => match t {
            0 => s.write(*v as u8),
            1 => s.write(*v as u16),
            2 => s.write(*v as u32),
            _ => s.write(*v),
        },
        Op::Msbs(t, v, n) => match t {
            0 => s.write_msbs(*v as u8, *n),
            1 => s.write_msbs(*v as u16, *n),
            2 => s.write_msbs(*v as u32, *n),
            _ => s.write_msbs(*v, *n),
        },
        Op::Lsbs(t, v, n) => match t {
            0 => s.write_lsbs(*v as u8, *n),
            1 => s.write_lsbs(*v as u16, *n),
            2 => s.write_lsbs(*v as u32, *n),
            _ => s.write_lsbs(*v, *n),
        },
        Op::Twoc(t, v, n) => match t {
            0 => s.write_twoc(*v as i8, *n),
            1 => s.write_twoc(*v as i16, *n),
            2 => s.write_twoc(*v as i32, *n),
            _ => s.write_twoc(*v, *n),
        },
        Op::Zeros(n) => s.write_zeros(*n),
        Op::Align => s.align_to_byte().map(|_| ()),
        Op::Bytes(b) => s.write_bytes_aligned(b).map(|_| ()),
    }
}

/// Compares both in-memory sinks with the model after the history; returns a mismatch description.
fn compare_sinks(m: &BitVec, s8: &MemSink<u8>, s64: &MemSink<u64>) -> Option<String> {
    if s8.len() != m.len {
        return Some(format!("MemSink<u8>::len()={} model={}", s8.len(), m.len));
    }
    if s64.len() != m.len {
        return Some(format!("MemSink<u64>::len()={} model={}", s64.len(), m.len));
    }
    let nbytes = (m.len + 7) / 8;
    if s8.as_slice() != &m.bytes[..] {
        return Some(format!("MemSink<u8>::as_slice() {:02x?} differs from model {:02x?} (includes tail bits)", &s8.as_slice()[s8.as_slice().len().saturating_sub(10)..], &m.bytes[m.bytes.len().saturating_sub(10)..]));
    }
    let words = s64.as_slice();
    if words.len() != (m.len + 63) / 64 {
        return Some(format!("MemSink<u64> holds {} words for {} bits", words.len(), m.len));
    }
    let mut flat: Vec<u8> = Vec::with_capacity(words.len() * 8);
    for w in words {
        flat.extend_from_slice(&w.to_be_bytes());
    }
    if flat[..nbytes] != m.bytes[..] {
        return Some("MemSink<u64>::as_slice() bits differ from model".to_string());
    }
    if flat[nbytes..].iter().any(|b| *b != 0) {
        return Some("MemSink<u64>: bits beyond len() are not zero".to_string());
    }
    let mut exp = vec![0xAAu8; nbytes];
    s64.write_to_byte_slice(&mut exp);
    if exp != m.bytes {
        return Some("MemSink<u64>::write_to_byte_slice differs from model".to_string());
    }
    let mut exp8 = vec![0xAAu8; nbytes];
    s8.write_to_byte_slice(&mut exp8);
    if exp8 != m.bytes {
        return Some("MemSink<u8>::write_to_byte_slice differs from model".to_string());
    }
    // to_bitstring
    let bs8: String = s8.to_bitstring().chars().filter(|c| *c == '0' || *c == '1').collect();
    let bs64: String = s64.to_bitstring().chars().filter(|c| *c == '0' || *c == '1').collect();
    let want: String = (0..m.len).map(|i| if m.get(i) { '1' } else { '0' }).collect();
    if bs8 != want {
        return Some("MemSink<u8>::to_bitstring differs from model".to_string());
    }
    if bs64 != want {
        return Some("MemSink<u64>::to_bitstring differs from model".to_string());
    }
    None
}

/// Runs one history on both sinks + model, checking after every operation.
fn run_history(ops: &[Op]) -> Result<(), (usize, String)> {
    let r = catch(|| -> Result<(), (usize, String)> {
        let mut m = BitVec::new();
        let mut s8 = MemSink::<u8>::new();
        let mut s64 = MemSink::<u64>::new();
        // a user-defined sink with only the required methods: the trait's default
        // write_zeros / write_twoc / write_bytes_aligned run on the same history
        let mut su = UserSink::new();
        for (i, op) in ops.iter().enumerate() {
            apply_model(&mut m, op);
            apply_sink(&mut s8, op).unwrap();
            apply_sink(&mut s64, op).unwrap();
            apply_sink(&mut su, op).unwrap();
            if let Some(d) = compare_sinks(&m, &s8, &s64) {
                return Err((i, d));
            }
            if su.bits.len != m.len || su.bits.bytes != m.bytes {
                return Err((i, format!("a user-defined sink (default trait methods) holds {} bits, the model {} (or different bits)", su.bits.len, m.len)));
            }
        }
        // into_inner
        let inner8 = s8.into_inner();
        if inner8 != m.bytes {
            return Err((ops.len(), "MemSink<u8>::into_inner differs from model".to_string()));
        }
        Ok(())
    });
    match r {
        Ok(x) => x,
        Err(p) => Err((usize::MAX, p.short())),
    }
}

fn op_class(op: &Op) -> String {
    match op {
        Op::Write(t, _) => format!("write<u{}>", tbits(*t)),
        Op::Msbs(t, _, n) => format!("write_msbs<u{}>(n{})", tbits(*t), if *n == 0 { "=0" } else { ">0" }),
        Op::Lsbs(t, _, n) => format!("write_lsbs<u{}>(n{})", tbits(*t), if *n == 0 { "=0" } else { ">0" }),
        Op::Twoc(t, _, _) => format!("write_twoc<i{}>", tbits(*t)),
        Op::Zeros(_) => "write_zeros".into(),
        Op::Align => "align_to_byte".into(),
        Op::Bytes(_) => "write_bytes_aligned".into(),
    }
}

pub fn run_c11(ctx: &Ctx) -> i32 {
    let mut out = Outcome::default();
    let values = |t: u8, r: &mut Rng| -> [u64; 4] { [0, tmask(t), 0xA5A5_A5A5_A5A5_A5A5 & tmask(t), r.next_u64() & tmask(t)] };
    // exhaustive: offset 0..=63 x type x n x {msbs,lsbs} x 4 values, followed by a probe write
    run_cases(ctx, "exhaustive", 64, &mut out, |off, out| {
        let mut rng = Rng::for_case(ctx.seed, "C11.exhaustive", off);
        let prefix = Op::Lsbs(3, rng.next_u64(), off as usize);
        let probe = Op::Lsbs(1, 0x8001, 16);
        for t in 0u8..4 {
            for n in 0..=tbits(t) {
                for v in values(t, &mut rng) {
                    for which in 0..2 {
                        let op = if which == 0 { Op::Msbs(t, v, n) } else { Op::Lsbs(t, v, n) };
                        let h = vec![prefix.clone(), op.clone(), probe.clone()];
                        out.evaluations += 1;
                        out.distinct.insert(prng::hash_str(&format!("{off}/{t}/{n}/{which}/{v}")));
                        if let Err((i, d)) = run_history(&h) {
                            out.violation(format!("C11|model-mismatch|{}", op_class(&op)), format!("offset {off}, then {op:?}, then probe: after op #{i}: {d}"), rpj(ctx, "exhaustive", off, json!({"history": format!("{h:?}")})));
                        }
                    }
                }
            }
            // write::<T> and write_twoc at every width
            for v in values(t, &mut rng) {
                let h = vec![prefix.clone(), Op::Write(t, v), probe.clone()];
                out.evaluations += 1;
                if let Err((i, d)) = run_history(&h) {
                    out.violation(format!("C11|model-mismatch|write<u{}>", tbits(t)), format!("offset {off}: after op #{i}: {d}"), rpj(ctx, "exhaustive", off, json!({"history": format!("{h:?}")})));
                }
                for n in 1..=tbits(t) {
                    // any value whose two's complement fits in n bits
                    let sv = ((v as i64) << (64 - n)) >> (64 - n);
                    let h = vec![prefix.clone(), Op::Twoc(t, sv, n), probe.clone()];
                    out.evaluations += 1;
                    if let Err((i, d)) = run_history(&h) {
                        out.violation(format!("C11|model-mismatch|write_twoc<i{}>", tbits(t)), format!("offset {off}, write_twoc({sv}, {n}): after op #{i}: {d}"), rpj(ctx, "exhaustive", off, json!({"history": format!("{h:?}")})));
                    }
                }
            }
        }
        for n in (0..=200).chain([1 << 10, (1 << 16) + 3]) {
            let h = vec![prefix.clone(), Op::Zeros(n), probe.clone(), Op::Align, probe.clone()];
            out.evaluations += 1;
            if let Err((i, d)) = run_history(&h) {
                out.violation("C11|model-mismatch|write_zeros", format!("offset {off}, write_zeros({n}): after op #{i}: {d}"), rpj(ctx, "exhaustive", off, json!({"history": format!("{h:?}")})));
            }
        }
        for len in [0usize, 1, 7, 8, 9, 17] {
            let b: Vec<u8> = (0..len).map(|_| rng.next_u64() as u8).collect();
            let h = vec![prefix.clone(), Op::Bytes(b), probe.clone(), Op::Align, Op::Align, probe.clone()];
            out.evaluations += 1;
            if let Err((i, d)) = run_history(&h) {
                out.violation("C11|model-mismatch|write_bytes_aligned", format!("offset {off}: after op #{i}: {d}"), rpj(ctx, "exhaustive", off, json!({"history": format!("{h:?}")})));
            }
        }
        if off == 5 {
            out.sample(json!({"sub": "exhaustive", "offset": off, "example_history": format!("{:?}", vec![prefix.clone(), Op::Msbs(2, 0xA5A5_A5A5, 13), probe.clone()])}));
        }
    });
    // random histories
    let n = ctx.tier.pick(100_000, 6_000_000);
    run_cases(ctx, "random", n, &mut out, |idx, out| {
        let mut rng = Rng::for_case(ctx.seed, "C11.random", idx);
        let len = 1 + rng.usize_below(if idx % 50 == 0 { 200 } else { 24 });
        let mut h = Vec::with_capacity(len);
        for _ in 0..len {
            let t = rng.usize_below(4) as u8;
            let v = match rng.usize_below(4) {
                0 => 0,
                1 => u64::MAX,
                _ => rng.next_u64(),
            };
            let n = match rng.usize_below(6) {
                0 => 0,
                1 => tbits(t),
                _ => rng.usize_below(tbits(t) + 1),
            };
            h.push(match rng.usize_below(10) {
                0 => Op::Write(t, v),
                1 | 2 => Op::Msbs(t, v, n),
                3 | 4 => Op::Lsbs(t, v, n),
                5 => {
                    let n = n.max(1);
                    Op::Twoc(t, ((v as i64) << (64 - n)) >> (64 - n), n)
                }
                6 | 7 => Op::Zeros(match rng.usize_below(5) {
                    0 => 0,
                    1 => rng.usize_below(8),
                    2 => 63 + rng.usize_below(4),
                    3 => rng.usize_below(200),
                    _ => 64 * rng.usize_below(4),
                }),
                8 => Op::Align,
                _ => Op::Bytes((0..rng.usize_below(5)).map(|_| rng.next_u64() as u8).collect()),
            });
        }
        out.evaluations += 1;
        out.distinct.insert(prng::hash_str(&format!("{h:?}")));
        if let Err((i, d)) = run_history(&h) {
            let cls = if i < h.len() { op_class(&h[i]) } else { "end".to_string() };
            out.violation(format!("C11|model-mismatch|{cls}"), format!("history of {} ops: after op #{i} ({:?}): {d}", h.len(), h.get(i)), rpj(ctx, "random", idx, json!({"history": format!("{h:?}")})));
        }
        if idx < 2 {
            out.sample(json!({"sub": "random", "history": format!("{h:?}")}));
        }
    });
    // user-defined sink with only the required methods receives the same bits (components)
    let n = ctx.tier.pick(450, 15_000);
    run_cases(ctx, "usersink", n, &mut out, |idx, out| {
        let mut rng = Rng::for_case(ctx.seed, "C11.usersink", idx);
        let case = gen_case(&mut rng, &Limits { max_samples: 5000, ..Limits::default() });
        // a third of the comparisons happen right after failed writes on this thread: whatever a
        // failed write leaves behind would reach the three sink types differently
        if idx % 3 == 1 {
            crate::poison::failing_writes(&mut Rng::for_case(ctx.seed, "poison", idx));
            out.count("comparisons_after_failed_writes_on_the_thread");
        }
        if let Ok(obs) = observe(&case) {
            out.count("streams_through_user_sink");
            oracle_c08_stream(ctx, "usersink", idx, &case.describe(), &obs.stream, out);
            // the same frame into sinks that already hold 1..7 bits: the user sink, the byte sink
            // and the word sink must receive one and the same bit sequence, whether the frame
            // carries a precomputed bitstream (multi-thread encoder output) or is serialised on
            // the fly (single-thread output) - one component, one bit sequence
            for fi in 0..obs.stream.frame_count().min(2) {
                let Some(f) = obs.stream.frame(fi) else { continue };
                let lead = 1 + (idx as usize + fi) % 7;
                let mut plain = f.clone();
                let (h, subs) = plain.clone().into_parts();
                // a copy without a precomputed bitstream, and one with it
                plain = flacenc::component::Frame::new(h, subs.into_iter()).unwrap_or(plain);
                let mut pre = plain.clone();
                pre.precompute_bitstream();
                let r = catch(|| -> Result<Vec<(&'static str, BitVec)>, String> {
                    let mut got = vec![];
                    for (tag, fr) in [("on-the-fly", &plain), ("precomputed", &pre)] {
                        let mut us = UserSink::new();
                        us.bits.push_lsbs(0b1011011, lead);
                        fr.write(&mut us).map_err(|e| format!("{e:?}"))?;
                        got.push((tag, us.bits.clone()));
                        let mut s8 = MemSink::<u8>::new();
                        s8.write_lsbs(0b1011011u8, lead).map_err(|e| format!("{e:?}"))?;
                        fr.write(&mut s8).map_err(|e| format!("{e:?}"))?;
                        let mut m8 = BitVec::new();
                        let l8 = s8.len();
                        m8.bytes = s8.into_inner();
                        m8.len = l8;
                        m8.bytes.truncate((l8 + 7) / 8);
                        got.push((tag, m8));
                        let mut s64 = MemSink::<u64>::new();
                        s64.write_lsbs(0b1011011u8, lead).map_err(|e| format!("{e:?}"))?;
                        fr.write(&mut s64).map_err(|e| format!("{e:?}"))?;
                        let l64 = s64.len();
                        let mut by = vec![0u8; (l64 + 7) / 8 + 8];
                        s64.write_to_byte_slice(&mut by);
                        by.truncate((l64 + 7) / 8);
                        got.push((tag, BitVec { bytes: by, len: l64 }));
                    }
                    Ok(got)
                });
                out.evaluations += 1;
                out.count("frames_into_unaligned_sinks");
                match r {
                    Ok(Ok(got)) => {
                        let names = ["user sink", "MemSink<u8>", "MemSink<u64>"];
                        for (i, (tag, bits)) in got.iter().enumerate().skip(1) {
                            if bits.len != got[0].1.len || bits.bytes != got[0].1.bytes {
                                out.violation(format!("C11|component-bits-differ|Frame@bit{lead}"), format!("frame {fi} written into sinks holding {lead} bits: the {} ({tag}) received {} bits, the user sink (on-the-fly) {} bits, and the sequences differ", names[i % 3], bits.len, got[0].1.len), rpj(ctx, "usersink", idx, case.describe()));
                                break;
                            }
                        }
                    }
                    Ok(Err(e)) => out.violation("C11|frame-write-fails", e, rpj(ctx, "usersink", idx, case.describe())),
                    Err(p) => out.violation(format!("C11|panic|{}", p.site()), p.short(), rpj(ctx, "usersink", idx, case.describe())),
                }
            }
        }
    });
    let fin = Finish {
        level: "exploration",
        rule: "model = packed MSB-first bit string; after EVERY operation of a history both MemSink<u8> and MemSink<u64> must agree with it on len(), as_slice() (incl. zero tail), write_to_byte_slice(), to_bitstring(), into_inner(). 'exhaustive' enumerates start offset 0..=63 x operand type u8/u16/u32/u64 x n in 0..=width x {write_msbs, write_lsbs} x 4 values (+ write<T>, write_twoc at every width, write_zeros 0..=200/2^10/2^16+3, align, write_bytes_aligned), each followed by a probe write; 'random' = mixed histories of 1..200 operations; 'usersink' = every component of generated streams written to a sink implementing only the required methods must receive the bits a ByteSink receives; frames are also written into the three sink types holding 1..7 bits already, with and without a precomputed bitstream: one bit sequence",
        assumptions: vec!["write_twoc is exercised for widths 1..=T::BITS with values representable in that width (its documented domain)".into()],
        exhaustive: Some(ctx.only.is_none()),
        floors: vec![],
        extra: json!({"exhaustive_part": "offset x type x width x {msbs,lsbs} x 4 values"}),
    };
    finish(ctx, out, fin)
}

// ================================================================ C12

/// Injects a failure at every operation k of writing `c` to a user sink.
fn fault_sweep<T: BitRepr>(ctx: &Ctx, what: &str, c: &T, max_dense: usize, out: &mut Outcome, rp: &dyn Fn(usize) -> serde_json::Value) {
    // the sink is byte aligned when the write starts, and (second sweep, a third of the fault
    // positions) holds 3 bits already, so that alignment steps inside the write are not no-ops
    fault_sweep_prefilled(ctx, what, c, max_dense, 0, out, rp);
    fault_sweep_prefilled(ctx, what, c, (max_dense / 3).max(8), 3, out, rp);
}

fn fault_sweep_prefilled<T: BitRepr>(_ctx: &Ctx, what: &str, c: &T, max_dense: usize, prefill: usize, out: &mut Outcome, rp: &dyn Fn(usize) -> serde_json::Value) {
    let what = &if prefill == 0 { what.to_string() } else { format!("{what}@bit{prefill}") };
    let new_sink = |fail_at: Option<usize>| -> UserSink {
        let mut s = UserSink::new();
        if prefill > 0 {
            s.bits.push_lsbs(0b101, prefill);
        }
        s.fail_at = fail_at;
        s
    };
    let clean = catch(|| {
        let mut s = new_sink(None);
        c.write(&mut s).map(|()| s)
    });
    let clean = match clean {
        Ok(Ok(s)) => s,
        Ok(Err(e)) => {
            out.violation(format!("C12|fault-free-write-fails|{what}"), format!("{e}"), rp(usize::MAX));
            return;
        }
        Err(p) => {
            out.violation(format!("C12|fault-free-write-panics|{what}|{}", p.site()), p.short(), rp(usize::MAX));
            return;
        }
    };
    let n = clean.ops;
    out.max(&format!("ops_per_write_{what}"), n as u64);
    let ks: Vec<usize> = if n <= max_dense {
        (0..n).collect()
    } else {
        let stride = (n - max_dense) / max_dense + 2;
        (0..max_dense).chain((max_dense..n).step_by(stride)).chain([n - 1]).collect()
    };
    for k in ks {
        out.evaluations += 1;
        let r = catch(|| {
            let mut s = new_sink(Some(k));
            let r = c.write(&mut s);
            (r, s)
        });
        match r {
            Ok((Err(OutputError::Sink(SinkFault(kk))), s)) => {
                out.count("faults_returned_as_sink_error");
                out.distinct.insert(prng::hash_str(&format!("{what}/{n}/{k}")));
                if kk != k {
                    out.violation(format!("C12|wrong-error|{what}"), format!("fault injected at op {k} but error carries {kk}"), rp(k));
                }
                if !s.bits.is_prefix_of(&clean.bits) {
                    out.violation(format!("C12|not-a-prefix|{what}"), format!("after a fault at op {k} the sink holds {} bits that are not a prefix of the fault-free stream", s.bits.len), rp(k));
                }
            }
            Ok((Err(e), _)) => out.violation(format!("C12|wrong-error-kind|{what}"), format!("fault at op {k} surfaced as {e:?}"), rp(k)),
            Ok((Ok(()), _)) => out.violation(format!("C12|error-swallowed|{what}"), format!("fault at op {k} of {n}: write returned Ok"), rp(k)),
            Err(p) => out.violation(format!("C12|panic|{what}|{}", p.site()), format!("fault at op {k} of {n}: {}", p.short()), rp(k)),
        }
        // the same fault through a sink whose error type is zero-sized (every 3rd position): the
        // error must still come back (as Err) and the accepted bits must still be a prefix
        if k % 3 == 0 || k + 1 == n {
            let rz = catch(|| {
                let mut s = crate::bitmodel::UnitErrSink(new_sink(Some(k)));
                let r = c.write(&mut s);
                (r.is_err(), s.0)
            });
            out.count("faults_through_a_zero_sized_error_type");
            match rz {
                Ok((true, s)) => {
                    if !s.bits.is_prefix_of(&clean.bits) {
                        out.violation(format!("C12|not-a-prefix|{what}|unit-error"), format!("unit-error sink failing at op {k}: accepted bits are not a prefix of the fault-free stream"), rp(k));
                    }
                }
                Ok((false, _)) => out.violation(format!("C12|error-swallowed|{what}|unit-error"), format!("a sink with a zero-sized error type failed at op {k} of {n}: write returned Ok"), rp(k)),
                Err(p) => out.violation(format!("C12|panic|{what}|{}", p.site()), format!("unit-error sink, fault at op {k}: {}", p.short()), rp(k)),
            }
        }
        // the failure must leave nothing behind: the same component written again on this thread
        // (every 4th fault position, and the last) gives the fault-free bits
        if k % 4 == 0 || k + 1 == n {
            let again = catch(|| {
                let mut s = new_sink(None);
                c.write(&mut s).map(|()| s)
            });
            out.count("rewrites_after_a_failed_write");
            match again {
                Ok(Ok(s)) => {
                    if s.bits.len != clean.bits.len || s.bits.bytes != clean.bits.bytes {
                        out.violation(format!("C12|rewrite-after-failure-differs|{what}"), format!("after a fault at op {k} of {n}, writing the same {what} again gives {} bits instead of the fault-free {} (or different bits)", s.bits.len, clean.bits.len), rp(k));
                        return;
                    }
                }
                Ok(Err(e)) => out.violation(format!("C12|rewrite-after-failure-fails|{what}"), format!("{e}"), rp(k)),
                Err(p) => out.violation(format!("C12|panic|{what}|{}", p.site()), format!("re-write after a fault at op {k}: {}", p.short()), rp(k)),
            }
        }
    }
}

pub fn run_c12(ctx: &Ctx) -> i32 {
    let mut out = Outcome::default();
    let n = ctx.tier.pick(200, 6000);
    run_cases(ctx, "streams", n, &mut out, |idx, out| {
        let mut rng = Rng::for_case(ctx.seed, "C12.streams", idx);
        let mut case = gen_case(&mut rng, &Limits { max_samples: 700, max_blocks: 3, max_block_size: 200, channel_choices: vec![1, 2, 2, 3], ..Limits::default() });
        // make sure every subframe type shows up across the workload
        match idx % 4 {
            0 => {
                case.cfg.subframe_coding.use_fixed = true;
                case.cfg.subframe_coding.use_lpc = false;
            }
            1 => {
                case.cfg.subframe_coding.use_fixed = false;
                case.cfg.subframe_coding.use_lpc = true;
            }
            _ => {}
        }
        case.cfg.multithread = idx % 3 == 0; // precomputed bitstreams
        case.cfg.workers = NonZeroUsize::new(2);
        let Ok(obs) = observe(&case) else { return };
        let mut stream = obs.stream;
        if idx % 2 == 0 {
            stream.add_metadata_block(MetadataBlockData::new_unknown(5, &[1, 2, 3, 4, 5]).unwrap());
        }
        for f in &obs.rep.frames {
            for s in &f.subframes {
                out.count(&format!("subframe_{:?}", s.kind).chars().filter(|c| c.is_alphabetic() || *c == '_').collect::<String>());
            }
        }
        let d = case.describe();
        let dense = ctx.tier.pick(1500, 2500);
        fault_sweep(ctx, "Stream", &stream, dense, out, &|k| rpj(ctx, "streams", idx, json!({"case": d, "fault_at": k})));
        if let Some(f) = stream.frame(0) {
            let mut f2 = f.clone();
            // both forms of a frame
            fault_sweep(ctx, if f.count_bits() > 0 && case.cfg.multithread { "Frame(precomputed)" } else { "Frame" }, f, 800, out, &|k| rpj(ctx, "streams", idx, json!({"case": d, "frame": 0, "fault_at": k})));
            f2.precompute_bitstream();
            fault_sweep(ctx, "Frame(precomputed)", &f2, 400, out, &|k| rpj(ctx, "streams", idx, json!({"case": d, "frame": 0, "precomputed": true, "fault_at": k})));
            fault_sweep(ctx, "FrameHeader", f.header(), 100, out, &|k| rpj(ctx, "streams", idx, json!({"case": d, "header": true, "fault_at": k})));
            for ch in 0..f.subframe_count() {
                let sf = f.subframe(ch).unwrap();
                fault_sweep(ctx, "SubFrame", sf, 600, out, &|k| rpj(ctx, "streams", idx, json!({"case": d, "subframe": ch, "fault_at": k})));
                match sf {
                    SubFrame::FixedLpc(c) => fault_sweep(ctx, "Residual", c.residual(), 300, out, &|k| rpj(ctx, "streams", idx, json!({"case": d, "residual_of": ch, "fault_at": k}))),
                    SubFrame::Lpc(c) => fault_sweep(ctx, "Residual", c.residual(), 300, out, &|k| rpj(ctx, "streams", idx, json!({"case": d, "residual_of": ch, "fault_at": k}))),
                    _ => {}
                }
            }
        }
        fault_sweep(ctx, "StreamInfo", stream.stream_info(), 100, out, &|k| rpj(ctx, "streams", idx, json!({"case": d, "streaminfo": true, "fault_at": k})));
        if idx < 2 {
            out.sample(json!({"sub": "streams", "case": d, "frames": stream.frame_count()}));
        }
    });
    // constructed residuals / subframes with long unary runs (quotients 65..300: zero runs that
    // span several 64-bit words in the sink's default write_zeros), written stand-alone
    let nc = ctx.tier.pick(120, 4000);
    run_cases(ctx, "constructed", nc, &mut out, |idx, out| {
        use flacenc::component::{FixedLpc, Residual};
        let mut rng = Rng::for_case(ctx.seed, "C12.constructed", idx);
        let order = rng.usize_below(3);
        let parts = 1usize << order;
        let plen = *rng.pick(&[4usize, 8, 16]);
        let n = parts * plen;
        // warm-up of every fixed order 0..=4 (at 17 bits and more the warm-up of the higher orders
        // no longer fits one 64-bit word)
        let warm = rng.usize_below(5).min(plen);
        let params: Vec<u8> = (0..parts).map(|_| rng.usize_below(6) as u8).collect();
        let mut q = vec![0u32; n];
        let mut r = vec![0u32; n];
        for t in warm..n {
            let p = params[t / plen];
            q[t] = match rng.usize_below(6) {
                0 => 65 + rng.usize_below(4) as u32,
                1 => 128 + rng.usize_below(3) as u32,
                2 => 200 + rng.usize_below(100) as u32,
                _ => rng.usize_below(3) as u32,
            };
            r[t] = (rng.next_u64() as u32) & ((1u32 << p) - 1);
        }
        let d = json!({"constructed": "Residual", "order": order, "n": n, "warmup": warm, "params": params, "max_q": q.iter().max()});
        let Ok(res) = Residual::new(order, n, warm, &params, &q, &r) else { return };
        fault_sweep(ctx, "Residual(constructed)", &res, 600, out, &|k| rpj(ctx, "constructed", idx, json!({"case": d, "fault_at": k})));
        if warm > 0 {
            let wbps = *rng.pick(&[8usize, 12, 16, 17, 20, 21, 24, 25]);
            let wl = 1i64 << (wbps - 1);
            let w: Vec<i32> = (0..warm).map(|_| if rng.flip() { rng.range(-100, 100) } else { rng.range(-wl, wl - 1) } as i32).collect();
            if let Ok(f) = FixedLpc::new(&w, res, wbps) {
                let sf: SubFrame = f.into();
                fault_sweep(ctx, "SubFrame(constructed)", &sf, 300, out, &|k| rpj(ctx, "constructed", idx, json!({"case": d, "subframe": true, "fault_at": k})));
            }
        }
    });
    let fin = Finish {
        level: "fault_enumeration",
        rule: "a recording user sink fails at its k-th operation; a fault-free pass counts the N operations of the write, then every k in 0..N is injected (dense up to 1500-2500 operations per write, strided beyond, last operation always); each injected fault must come back as OutputError::Sink carrying k, without a panic, and the bits accepted must be a prefix of the fault-free bits; writes: whole streams (single-thread and multi-thread = precomputed frames, with/without extra metadata), stand-alone frames in both forms, frame headers, subframes, residuals, STREAMINFO; distinct = (component, N, k)",
        assumptions: vec!["the user sink implements only the four required methods, so every default method of the trait is on the path".into()],
        exhaustive: Some(false),
        floors: vec![("injected faults that surfaced as OutputError::Sink".into(), out.stats.get("faults_returned_as_sink_error").copied().unwrap_or(0), 1000)],
        extra: json!({}),
    };
    finish(ctx, out, fin)
}

// ================================================================ C14

fn verbatim_only() -> flacenc::error::Verified<config::Encoder> {
    let mut c = config::Encoder::default();
    c.multithread = false;
    c.subframe_coding.use_constant = false;
    c.subframe_coding.use_fixed = false;
    c.subframe_coding.use_lpc = false;
    c.stereo_coding.use_leftside = false;
    c.stereo_coding.use_rightside = false;
    c.stereo_coding.use_midside = false;
    enc::verified(&c).unwrap()
}

/// Buffer contents as exposed by a verbatim-only frame.
fn buffer_view(cfg: &flacenc::error::Verified<config::Encoder>, fb: &FrameBuf, si: &StreamInfo) -> Result<Vec<Vec<i32>>, String> {
    let r = catch(|| flacenc::encode_fixed_size_frame(cfg, fb, 0, si));
    match r {
        Ok(Ok(f)) => {
            let mut v = vec![];
            for ch in 0..f.subframe_count() {
                match f.subframe(ch).unwrap() {
                    SubFrame::Verbatim(x) => v.push(x.samples().to_vec()),
                    other => return Err(format!("non-verbatim subframe with a verbatim-only configuration: {other:?}").chars().take(120).collect()),
                }
            }
            Ok(v)
        }
        Ok(Err(e)) => Err(format!("err: {e}")),
        Err(p) => Err(format!("panic: {}", p.short())),
    }
}

pub fn run_c14(ctx: &Ctx) -> i32 {
    let mut out = Outcome::default();
    let vcfg = verbatim_only();
    // (b)+(c): fills
    let caps = [32usize, 33, 64, 257, 4096];
    let n = ctx.tier.pick(60_000, 3_200_000);
    run_cases(ctx, "fills", n, &mut out, |idx, out| {
        let mut rng = Rng::for_case(ctx.seed, "C14.fills", idx);
        let channels = 1 + (idx % 8) as usize;
        let bytes = 1 + (idx / 8 % 4) as usize;
        let cap = caps[(idx / 32 % 5) as usize];
        let bps = match bytes {
            1 => 8,
            2 => *rng.pick(&[12usize, 16]),
            3 => *rng.pick(&[20usize, 24]),
            _ => *rng.pick(&[8usize, 12, 16, 20, 24]),
        };
        // fill lengths: exhaustive for small capacities over the index space, else boundary+random
        let len1 = if cap <= 64 { (idx / 160) as usize % (cap + 1) } else { *rng.pick(&[0usize, 1, cap - 1, cap, cap / 2, 15, 16, 17, 63, 64, 65]) };
        let len2 = match rng.usize_below(4) {
            0 => cap,
            1 => rng.usize_below(cap + 1),
            2 => rng.usize_below(17),
            _ => len1 / 2,
        };
        let lo = gen::smin(bps) as i64;
        let hi = gen::smax(bps) as i64;
        let mk = |rng: &mut Rng, len: usize| -> Vec<i32> {
            (0..len * channels)
                .map(|_| match rng.usize_below(6) {
                    0 => lo as i32,
                    1 => hi as i32,
                    2 => -1,
                    _ => rng.range(lo, hi) as i32,
                })
                .collect()
        };
        let desc = json!({"channels": channels, "bytes_per_sample": bytes, "bps": bps, "capacity": cap, "fills": [len2.max(len1), len1, len2]});
        let rp = || rpj(ctx, "fills", idx, desc.clone());
        let si = match StreamInfo::new(44100, channels, bps) {
            Ok(s) => s,
            Err(_) => return,
        };
        let r = catch(|| -> Result<(), String> {
            let mut fb_i = FrameBuf::with_size(channels, cap).map_err(|e| format!("{e}"))?;
            let mut fb_b = FrameBuf::with_size(channels, cap).map_err(|e| format!("{e}"))?;
            let mut ctx_i = Context::new(bps, channels);
            let mut ctx_b = Context::new(bps, channels);
            // a full (or long) block first, then shorter ones: stale tail must not be visible
            for (step, len) in [cap, len1, len2].iter().enumerate() {
                let data = mk(&mut rng, *len);
                let off = (idx as usize + data.len()) % 4;
                let mut by_store = vec![0xEEu8; off];
                by_store.extend_from_slice(&gen::to_le_bytes(&data, bytes));
                let by = &by_store[off..];
                fb_i.fill_interleaved(&data).map_err(|e| format!("{e}"))?;
                fb_b.fill_le_bytes(&by, bytes).map_err(|e| format!("{e}"))?;
                if fb_i.filled_size() != *len || fb_b.filled_size() != *len {
                    return Err(format!("step {step}: filled_size {} / {} expected {len}", fb_i.filled_size(), fb_b.filled_size()));
                }
                if *len > 0 {
                    let vi = buffer_view(&vcfg, &fb_i, &si)?;
                    let vb = buffer_view(&vcfg, &fb_b, &si)?;
                    let want: Vec<Vec<i32>> = (0..channels).map(|ch| (0..*len).map(|t| data[t * channels + ch]).collect()).collect();
                    if vi != want {
                        return Err(format!("step {step}: integer fill of {len} samples exposes a buffer that differs from the input"));
                    }
                    if vb != want {
                        return Err(format!("step {step}: byte fill ({bytes} bytes/sample) of {len} samples exposes a buffer that differs from the input"));
                    }
                }
                // a context of 25..32-bit samples takes 4-byte containers: the same two-path
                // comparison at the widest container (all channel counts)
                if bytes == 4 {
                    let wide = 25 + (idx as usize / 160) % 8;
                    let mut wi = Context::new(wide, channels);
                    let mut wb = Context::new(wide, channels);
                    wi.fill_interleaved(&data).map_err(|e| format!("{e}"))?;
                    wb.fill_le_bytes(&by, 4).map_err(|e| format!("{e}"))?;
                    if wi.md5_digest() != wb.md5_digest() || wi.total_samples() != wb.total_samples() {
                        return Err(format!("step {step}: a {wide}-bit Context ({channels} channels, 4-byte containers) diverges between integer and byte fill (md5 {:02x?} vs {:02x?}, total {} vs {})", &wi.md5_digest()[..4], &wb.md5_digest()[..4], wi.total_samples(), wb.total_samples()));
                    }
                }
                // context: only when bytes == ceil(bps/8) are the two hash inputs meant to agree
                if bytes == (bps + 7) / 8 {
                    ctx_i.fill_interleaved(&data).map_err(|e| format!("{e}"))?;
                    ctx_b.fill_le_bytes(&by, bytes).map_err(|e| format!("{e}"))?;
                    if ctx_i.md5_digest() != ctx_b.md5_digest() || ctx_i.total_samples() != ctx_b.total_samples() || ctx_i.current_frame_number() != ctx_b.current_frame_number() {
                        return Err(format!("step {step}: Context diverges between integer and byte fill (md5 {:02x?} vs {:02x?}, total {} vs {}, frame {:?} vs {:?})", &ctx_i.md5_digest()[..4], &ctx_b.md5_digest()[..4], ctx_i.total_samples(), ctx_b.total_samples(), ctx_i.current_frame_number(), ctx_b.current_frame_number()));
                    }
                }
            }
            Ok(())
        });
        out.evaluations += 1;
        out.distinct.insert(prng::hash_str(&desc.to_string()));
        out.count(&format!("bytes_per_sample_{bytes}"));
        match r {
            Ok(Ok(())) => {}
            Ok(Err(e)) => out.violation(format!("C14|fill-mismatch|bytes{bytes}"), e, rp()),
            Err(p) => out.violation(format!("C14|panic|{}", p.site()), p.short(), rp()),
        }
        if idx < 2 {
            out.sample(json!({"sub": "fills", "case": desc}));
        }
    });
    // (b') the (FrameBuf, Context) pair the stream encoder fills, driven with sequences that also
    // contain fills the buffer must refuse (too long) and empty fills: after every step - accepted
    // or refused - both delivery paths must have left the pair in the same state
    let n = ctx.tier.pick(18_000, 1_200_000);
    run_cases(ctx, "tuple", n, &mut out, |idx, out| {
        let mut rng = Rng::for_case(ctx.seed, "C14.tuple", idx);
        let channels = 1 + (idx % 8) as usize;
        let bps = gen::WIDTHS[(idx / 8 % 5) as usize];
        let bytes = (bps + 7) / 8;
        let cap = *rng.pick(&[32usize, 33, 64, 100, 257]);
        let lo = gen::smin(bps) as i64;
        let hi = gen::smax(bps) as i64;
        let Ok(si) = StreamInfo::new(44100, channels, bps) else { return };
        let steps = 3 + rng.usize_below(5);
        // a step is a fill of `len` samples, optionally preceded by a resize of both buffers
        let mut lens = vec![];
        let mut resizes: Vec<Option<usize>> = vec![];
        let mut cur = cap;
        for _ in 0..steps {
            let rs = if rng.chance(1, 5) { Some(*rng.pick(&[32usize, 40, 64, 100, 150, 257, 300])) } else { None };
            if let Some(r) = rs {
                cur = r;
            }
            resizes.push(rs);
            lens.push(match rng.usize_below(6) {
                0 => cur + 1 + rng.usize_below(40),
                1 => 0,
                2 => cur,
                _ => rng.usize_below(cur + 1),
            });
        }
        // a full block plus 1..channels-1 stray values: longer than the buffer by LESS than one
        // inter-channel sample (a capacity check on per-channel counts rounds that away)
        let strays: Vec<usize> = lens.iter().enumerate().map(|(i, l)| if channels > 1 && i > 0 && *l >= 32 && rng.chance(1, 3) { 1 + rng.usize_below(channels - 1) } else { 0 }).collect();
        let mut cur2 = cap;
        let lens: Vec<usize> = lens.iter().enumerate().map(|(i, l)| { if let Some(r) = resizes[i] { cur2 = r; } if strays[i] > 0 { cur2 } else { *l } }).collect();
        let desc = json!({"channels": channels, "bps": bps, "capacity": cap, "fill_lengths": lens, "resize_before_fill": resizes, "stray_values_after_a_full_block": strays});
        let r = catch(|| -> Result<(u64, u64), String> {
            let mut ti = (FrameBuf::with_size(channels, cap).map_err(|e| format!("{e}"))?, Context::new(bps, channels));
            let mut tb = (FrameBuf::with_size(channels, cap).map_err(|e| format!("{e}"))?, Context::new(bps, channels));
            let (mut refused, mut accepted) = (0u64, 0u64);
            let mut expect_total = 0usize;
            let mut cap = cap;
            let mut viewable = true;
            for (step, len) in lens.iter().enumerate() {
                if let Some(r) = resizes[step] {
                    ti.0.resize(r);
                    tb.0.resize(r);
                    cap = r;
                    // `resize` keeps the old fill count; the buffer is only looked at again after
                    // the next accepted fill (a stale count is outside this property)
                    viewable = false;
                }
                let data: Vec<i32> = (0..len * channels + strays[step]).map(|_| match rng.usize_below(5) { 0 => lo as i32, 1 => hi as i32, _ => rng.range(lo, hi) as i32 }).collect();
                let off = (idx as usize + data.len()) % 4;
                let mut by_store = vec![0xEEu8; off];
                by_store.extend_from_slice(&gen::to_le_bytes(&data, bytes));
                let by = &by_store[off..];
                let ri = ti.fill_interleaved(&data);
                let rb = tb.fill_le_bytes(&by, bytes);
                if strays[step] > 0 {
                    // (an offer that is not a whole number of inter-channel samples: the two paths
                    // must treat it alike - what they do with it is not this property's business)
                    if ri.is_ok() != rb.is_ok() {
                        return Err(format!("step {step}: a full block of {len} samples plus {} stray value(s): integer fill {} but byte fill {}", strays[step], if ri.is_ok() { "accepted" } else { "refused" }, if rb.is_ok() { "accepted" } else { "refused" }));
                    }
                    if ri.is_ok() {
                        viewable = false;
                        expect_total = ti.1.total_samples();
                        accepted += 1;
                    } else {
                        refused += 1;
                    }
                    continue;
                }
                if ri.is_ok() != rb.is_ok() {
                    return Err(format!("step {step} (len {len}): integer fill {} but byte fill {}", if ri.is_ok() { "accepted" } else { "refused" }, if rb.is_ok() { "accepted" } else { "refused" }));
                }
                if ri.is_ok() {
                    accepted += 1;
                    expect_total += len;
                    viewable = true;
                } else {
                    refused += 1;
                }
                if *len > cap && ri.is_ok() {
                    return Err(format!("step {step}: a fill of {len} samples into a buffer of {cap} was accepted"));
                }
                if ti.0.filled_size() != tb.0.filled_size() {
                    return Err(format!("step {step} (len {len}, {}): filled_size {} (integers) vs {} (bytes)", if ri.is_ok() { "accepted" } else { "refused" }, ti.0.filled_size(), tb.0.filled_size()));
                }
                if ti.1.md5_digest() != tb.1.md5_digest() || ti.1.total_samples() != tb.1.total_samples() || ti.1.current_frame_number() != tb.1.current_frame_number() {
                    return Err(format!("step {step} (len {len}, {}): Context diverges: total {} vs {}, frame {:?} vs {:?}, md5 {:02x?} vs {:02x?}", if ri.is_ok() { "accepted" } else { "refused" }, ti.1.total_samples(), tb.1.total_samples(), ti.1.current_frame_number(), tb.1.current_frame_number(), &ti.1.md5_digest()[..4], &tb.1.md5_digest()[..4]));
                }
                if ti.1.total_samples() != expect_total {
                    return Err(format!("step {step}: Context counts {} samples, {} were accepted", ti.1.total_samples(), expect_total));
                }
                if viewable && ti.0.filled_size() > 0 {
                    let vi = buffer_view(&vcfg, &ti.0, &si)?;
                    let vb = buffer_view(&vcfg, &tb.0, &si)?;
                    if vi != vb {
                        return Err(format!("step {step} (len {len}): buffers differ between the two delivery paths"));
                    }
                }
            }
            Ok((accepted, refused))
        });
        out.evaluations += 1;
        out.distinct.insert(prng::hash_str(&desc.to_string()));
        match r {
            Ok(Ok((a, rf))) => {
                out.add("tuple_fills_accepted", a);
                out.add("tuple_fills_refused", rf);
            }
            Ok(Err(e)) => out.violation("C14|tuple-state-diverges", e, rpj(ctx, "tuple", idx, desc)),
            Err(p) => out.violation(format!("C14|panic|{}", p.site()), p.short(), rpj(ctx, "tuple", idx, desc)),
        }
    });
    // (a) streams
    let n = ctx.tier.pick(3600, 160_000);
    run_cases(ctx, "streams", n, &mut out, |idx, out| {
        let mut rng = Rng::for_case(ctx.seed, "C14.streams", idx);
        let mut case = gen_case(&mut rng, &Limits { max_samples: 12_000, max_blocks: 4, ..Limits::default() });
        case.cfg.multithread = idx % 8 < 4;
        case.cfg.workers = NonZeroUsize::new(1 + rng.usize_below(4));
        case.hint = false;
        let mut res = vec![];
        // one case in four: both sources are pipe-style (every third read is short although input
        // remains - the same read pattern for both), so a short block sits between full ones
        let modes = if idx % 4 == 3 { [FillMode::IntShort, FillMode::BytesShort] } else { [FillMode::Int, FillMode::Bytes] };
        for mode in modes {
            case.mode = mode;
            match observe(&case) {
                Ok(o) => res.push(o.bytes),
                Err(e) => {
                    report_obs_err(ctx, "streams", idx, &case, &e, out);
                    return;
                }
            }
        }
        out.evaluations += 1;
        if idx % 4 == 3 {
            out.count("stream_pairs_with_short_reads");
        }
        if case.audio.frames() > 0 {
            out.distinct.insert(case.key());
        }
        if res[0] != res[1] {
            let pos = res[0].iter().zip(res[1].iter()).position(|(a, b)| a != b);
            out.violation("C14|streams-differ", format!("integer-fill and byte-fill streams differ (first at byte {pos:?}, lengths {} / {}; {:?})", res[0].len(), res[1].len(), modes[0]), rpj(ctx, "streams", idx, case.describe()));
        }
    });
    // (a'') big blocks: 48 Ki .. 256 Ki interleaved samples per block (block 8192..=32767 x 2..=8
    // channels, channel counts that are not powers of two included), both thread modes, one or two
    // full blocks and a ragged tail; content constant within a block so that encoding stays cheap.
    // Internal piece sizes of either delivery path (64 Ki samples, 256 KiB, ...) are crossed.
    let n = ctx.tier.pick(40, 1200);
    run_cases(ctx, "bigblocks", n, &mut out, |idx, out| {
        let mut rng = Rng::for_case(ctx.seed, "C14.bigblocks", idx);
        let bps = *rng.pick(&gen::WIDTHS);
        let channels = *rng.pick(&[2usize, 3, 3, 4, 5, 6, 7, 8]);
        let block = match rng.usize_below(4) {
            0 => 32767,
            1 => 65536 / channels + 1 + rng.usize_below(3),
            2 => 32000,
            _ => rng.urange(8192, 32767),
        }
        .min(32767);
        let blocks = 1 + rng.usize_below(2);
        let len = blocks * block + *rng.pick(&[0usize, 1, 7, 100, 4097]).min(&(block - 1));
        let mut samples = vec![0i32; len * channels];
        for b in 0..=blocks {
            let v: Vec<i32> = (0..channels).map(|_| rng.range(gen::smin(bps) as i64, gen::smax(bps) as i64) as i32).collect();
            for t in b * block..((b + 1) * block).min(len) {
                samples[t * channels..(t + 1) * channels].copy_from_slice(&v);
            }
        }
        let mut cfg = config::Encoder::default();
        cfg.multithread = idx % 3 != 0;
        cfg.workers = NonZeroUsize::new(1 + rng.usize_below(3));
        cfg.block_size = block;
        let mut case = Case { audio: Arc::new(Audio { channels, bps, rate: 48000, samples, recipe: format!("{blocks} big constant blocks of {block} x {channels}") }), cfg, block, mode: FillMode::Int, hint: rng.flip() };
        let mut res = vec![];
        for mode in [FillMode::Int, FillMode::Bytes] {
            case.mode = mode;
            match observe(&case) {
                Ok(o) => res.push(o.bytes),
                Err(e) => {
                    report_obs_err(ctx, "bigblocks", idx, &case, &e, out);
                    return;
                }
            }
        }
        out.evaluations += 1;
        out.distinct.insert(case.key());
        out.max("interleaved_samples_per_block", (block * channels) as u64);
        if res[0] != res[1] {
            let pos = res[0].iter().zip(res[1].iter()).position(|(a, b)| a != b);
            out.violation("C14|streams-differ", format!("integer-fill and byte-fill streams differ for big blocks (first at byte {pos:?}; bytes 21..26 hold the total, 26..42 the MD5)"), rpj(ctx, "bigblocks", idx, case.describe()));
        } else if res[0].len() >= 42 {
            // and the total both state is the number of samples handed over
            let total = (u64::from(res[0][21] & 0x0F) << 32) | u64::from(u32::from_be_bytes([res[0][22], res[0][23], res[0][24], res[0][25]]));
            if total != len as u64 {
                out.violation("C14|total-samples", format!("both delivery paths state {total} samples, {len} were handed over"), rpj(ctx, "bigblocks", idx, case.describe()));
            }
        }
    });
    // (a') many cheap blocks, many workers, and a hashing thread that is kept slow at the hook
    // (the 16-slot hash queue fills while the feeder may run 2 x workers blocks ahead): the two
    // delivery paths take different routes through the multi-thread context
    let n = ctx.tier.pick(48, 1500);
    crate::sched::perturb_only(Some(crate::sched::Policy::SlowHasher), ctx.seed);
    run_cases(ctx, "parbytes", n, &mut out, |idx, out| {
        let mut rng = Rng::for_case(ctx.seed, "C14.parbytes", idx);
        let bps = *rng.pick(&gen::WIDTHS);
        let channels = *rng.pick(&[1usize, 2, 2, 3]);
        let block = *rng.pick(&[32usize, 48, 64]);
        let blocks = 40 + rng.usize_below(120);
        let len = blocks * block + rng.usize_below(block);
        // constant within a block (cheap to encode), different between blocks (order matters for MD5)
        let mut samples = vec![0i32; len * channels];
        for b in 0..=blocks {
            let v = rng.range(gen::smin(bps) as i64, gen::smax(bps) as i64) as i32;
            for t in b * block..((b + 1) * block).min(len) {
                for c in 0..channels {
                    samples[t * channels + c] = v;
                }
            }
        }
        let mut cfg = config::Encoder::default();
        cfg.multithread = true;
        cfg.workers = NonZeroUsize::new(*rng.pick(&[9usize, 12, 16, 24, 4]));
        cfg.block_size = block;
        let mut case = Case { audio: Arc::new(Audio { channels, bps, rate: 44100, samples, recipe: format!("{blocks} constant blocks") }), cfg, block, mode: FillMode::Int, hint: rng.flip() };
        let mut res = vec![];
        for mode in [FillMode::Int, FillMode::Bytes] {
            case.mode = mode;
            match observe(&case) {
                Ok(o) => res.push(o.bytes),
                Err(e) => {
                    report_obs_err(ctx, "parbytes", idx, &case, &e, out);
                    return;
                }
            }
        }
        out.evaluations += 1;
        out.distinct.insert(case.key());
        if res[0] != res[1] {
            let pos = res[0].iter().zip(res[1].iter()).position(|(a, b)| a != b);
            out.violation("C14|streams-differ", format!("integer-fill and byte-fill streams differ in multi-thread mode with a slow hashing thread (first at byte {pos:?}; bytes 26..42 are the MD5)"), rpj(ctx, "parbytes", idx, case.describe()));
        }
    });
    crate::sched::perturb_only(None, 0);
    let fin = Finish {
        level: "exploration",
        rule: "'fills': channels 1..=8 x bytes-per-sample 1..=4 x capacity {32,33,64,257,4096}; each case fills a full block and then two shorter ones (lengths enumerated 0..=capacity for capacity <= 64 over the index space, boundary+random otherwise) through fill_interleaved and fill_le_bytes; the frame buffer is observed through a verbatim-only frame (Verbatim::samples()) and must equal the input exactly (no stale tail); Context md5/total/frame number must agree after every fill. 'streams': emitted bytes identical for an integer-fill and a byte-fill source in both thread modes; 'streams' pairs with pipe-style sources (a short block between full ones); 'bigblocks': blocks of 48 Ki - 256 Ki interleaved samples (2-8 channels, both thread modes); 'parbytes': the same with 40-160 cheap blocks, 9-24 workers and the hashing thread slowed down at the hook so that its queue fills; distinct by case description",
        assumptions: vec!["4-byte samples are exercised at frame-buffer level only (no supported width needs 4 bytes)".into()],
        exhaustive: None,
        floors: vec![],
        extra: json!({}),
    };
    finish(ctx, out, fin)
}

#[allow(dead_code)]
fn _unused(_: TestSource, _: Audio) {}

/// Miri/sanitizer-sized C11: a slice of the exhaustive grid plus random histories.
pub fn mini_c11(ctx: &Ctx, scale: u64, out: &mut Outcome) {
    let mut rng = Rng::for_case(ctx.seed, "mini.C11", 0);
    for k in 0..scale {
        let off = ((ctx.seed + k) * 7 % 64) as usize;
        let prefix = Op::Lsbs(3, rng.next_u64(), off);
        let probe = Op::Lsbs(1, 0x8001, 16);
        for t in 0u8..4 {
            for n in [0usize, 1, tbits(t) / 2, tbits(t) - 1, tbits(t)] {
                for which in 0..2 {
                    let v = [0, tmask(t), rng.next_u64() & tmask(t)][rng.usize_below(3)];
                    let op = if which == 0 { Op::Msbs(t, v, n) } else { Op::Lsbs(t, v, n) };
                    let h = vec![prefix.clone(), op.clone(), probe.clone(), Op::Align, Op::Zeros(rng.usize_below(130)), Op::Bytes(vec![0xA5, 0x5A])];
                    out.evaluations += 1;
                    if let Err((i, d)) = run_history(&h) {
                        out.violation(format!("C11|model-mismatch|{}", op_class(&op)), format!("offset {off}, {op:?}: after op #{i}: {d}"), json!({}));
                    }
                }
            }
        }
    }
}

/// Miri/sanitizer-sized C12: every fault position of tiny streams and their parts.
pub fn mini_c12(ctx: &Ctx, scale: u64, out: &mut Outcome) {
    for idx in 0..scale {
        let mut rng = Rng::for_case(ctx.seed, "mini.C12", idx);
        let mut case = gen_case(&mut rng, &Limits { max_samples: 100, max_blocks: 2, max_block_size: 48, channel_choices: vec![1, 2], ..Limits::default() });
        case.cfg.multithread = false;
        case.cfg.subframe_coding.qlpc.lpc_order = case.cfg.subframe_coding.qlpc.lpc_order.min(6);
        let Ok(obs) = observe(&case) else { continue };
        let mut stream = obs.stream;
        if idx % 2 == 0 {
            stream.add_metadata_block(MetadataBlockData::new_unknown(5, &[1, 2, 3]).unwrap());
        }
        fault_sweep(ctx, "Stream", &stream, 400, out, &|_| json!({}));
        if let Some(f) = stream.frame(0) {
            let mut f2 = f.clone();
            f2.precompute_bitstream();
            fault_sweep(ctx, "Frame(precomputed)", &f2, 100, out, &|_| json!({}));
        }
    }
}

/// Miri/sanitizer-sized C14: integer vs byte fills of small buffers (the byte path goes through
/// the unsafe SimdVec flattening).
pub fn mini_c14(ctx: &Ctx, scale: u64, out: &mut Outcome) {
    let vcfg = verbatim_only();
    for idx in 0..4 * scale {
        let mut rng = Rng::for_case(ctx.seed, "mini.C14", idx);
        let channels = 1 + (idx % 4) as usize;
        let bytes = 1 + (idx / 4 % 4) as usize;
        let cap = [32usize, 33, 40][(idx % 3) as usize];
        let bps = match bytes {
            1 => 8,
            2 => 16,
            3 => 24,
            _ => 20,
        };
        let lo = gen::smin(bps) as i64;
        let hi = gen::smax(bps) as i64;
        let Ok(si) = StreamInfo::new(44100, channels, bps) else { continue };
        let r = catch(|| -> Result<(), String> {
            let mut fb_i = FrameBuf::with_size(channels, cap).map_err(|e| format!("{e}"))?;
            let mut fb_b = FrameBuf::with_size(channels, cap).map_err(|e| format!("{e}"))?;
            let mut ctx_i = Context::new(bps, channels);
            let mut ctx_b = Context::new(bps, channels);
            // full-then-shorter on even cases; growing (small, tiny, full) on odd ones, so that any
            // lazily sized staging storage has to grow after it was used
            let lens = if idx % 2 == 0 { [cap, rng.usize_below(cap + 1), rng.usize_below(9)] } else { [1 + rng.usize_below(cap / 4), rng.usize_below(5), cap] };
            for len in lens {
                let data: Vec<i32> = (0..len * channels).map(|_| match rng.usize_below(4) { 0 => lo as i32, 1 => hi as i32, _ => rng.range(lo, hi) as i32 }).collect();
                let off = (idx as usize + data.len()) % 4;
                let mut by_store = vec![0xEEu8; off];
                by_store.extend_from_slice(&gen::to_le_bytes(&data, bytes));
                let by = &by_store[off..];
                fb_i.fill_interleaved(&data).map_err(|e| format!("{e}"))?;
                fb_b.fill_le_bytes(&by, bytes).map_err(|e| format!("{e}"))?;
                if len > 0 {
                    let vi = buffer_view(&vcfg, &fb_i, &si)?;
                    let vb = buffer_view(&vcfg, &fb_b, &si)?;
                    let want: Vec<Vec<i32>> = (0..channels).map(|ch| (0..len).map(|t| data[t * channels + ch]).collect()).collect();
                    if vi != want || vb != want {
                        return Err(format!("fill of {len} samples ({bytes} bytes/sample, {channels} ch, capacity {cap}) exposes a buffer that differs from the input"));
                    }
                }
                if bytes == (bps + 7) / 8 {
                    ctx_i.fill_interleaved(&data).map_err(|e| format!("{e}"))?;
                    ctx_b.fill_le_bytes(&by, bytes).map_err(|e| format!("{e}"))?;
                    if ctx_i.md5_digest() != ctx_b.md5_digest() || ctx_i.total_samples() != ctx_b.total_samples() {
                        return Err("Context diverges between integer and byte fill".to_string());
                    }
                }
            }
            Ok(())
        });
        out.evaluations += 1;
        match r {
            Ok(Ok(())) => {}
            Ok(Err(e)) => out.violation(format!("C14|fill-mismatch|bytes{bytes}"), e, json!({})),
            Err(p) => out.violation(format!("C14|panic|{}", p.site()), p.short(), json!({})),
        }
    }
}
