//! fvdigest: prints one hash per (input, configuration) of a fixed corpus. Built four times
//! with different flacenc feature sets; all listings must be identical (property C20).
#![allow(dead_code)]

#[path = "../../harness/src/prng.rs"]
mod prng;
#[path = "../../harness/src/gen.rs"]
mod gen;
#[path = "../../harness/src/digest_corpus.rs"]
mod digest_corpus;

fn main() {
    let args: Vec<String> = std::env::args().collect();
    let seed: u64 = args.get(1).and_then(|s| s.parse().ok()).unwrap_or(1);
    let n: u64 = args.get(2).and_then(|s| s.parse().ok()).unwrap_or(300);
    println!("# features: {}", flacenc::constant::build_info::FEATURES);
    for i in 0..n {
        println!("{}", digest_corpus::digest_line(seed, i));
    }
}
