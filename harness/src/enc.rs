//! Thin wrappers around the public encoding API with panic capture and size guards.

use crate::common::{catch, PanicRec};
use crate::gen::{Audio, FillMode, TestSource};
use flacenc::bitsink::{ByteSink, MemSink};
use flacenc::component::{BitRepr, Stream};
use flacenc::config;
use flacenc::error::{EncodeError, Verified, Verify};
use flacenc::source::{Context, FrameBuf, Source};
use std::sync::Arc;

/// Streams above this many bits are not serialised (blow-up guard).
pub const SERIALISE_CAP_BITS: usize = 64 << 23; // 64 MiB

pub fn verified(c: &config::Encoder) -> Result<Verified<config::Encoder>, String> {
    c.clone().into_verified().map_err(|(_, e)| format!("{e}"))
}

#[derive(Debug)]
pub enum EncErr {
    /// API returned Err: (kind, message) with kind in {"Source", "Config", "Other"}
    Api(&'static str, String),
    Panic(PanicRec),
}

pub fn err_kind(e: &EncodeError) -> &'static str {
    match e {
        EncodeError::Source(_) => "Source",
        EncodeError::Config(_) => "Config",
        _ => "Other",
    }
}

/// Stream-level encode through `encode_with_fixed_block_size` (single- or multi-thread per cfg).
pub fn encode_stream<S: Source>(
    cfg: &Verified<config::Encoder>,
    src: S,
    block: usize,
) -> Result<Stream, EncErr> {
    match catch(|| flacenc::encode_with_fixed_block_size(cfg, src, block)) {
        Ok(Ok(s)) => Ok(s),
        Ok(Err(e)) => Err(EncErr::Api(err_kind(&e), format!("{e}"))),
        Err(p) => Err(EncErr::Panic(p)),
    }
}

/// The documented frame-by-frame procedure (mirrors the single-thread stream encoder).
pub fn encode_framewise(
    cfg: &Verified<config::Encoder>,
    audio: &Arc<Audio>,
    mode: FillMode,
    block: usize,
) -> Result<Stream, EncErr> {
    let r = catch(|| -> Result<Stream, EncodeError> {
        let mut src = TestSource::new(Arc::clone(audio), mode, false);
        let mut stream = Stream::new(audio.rate, audio.channels, audio.bps)?;
        let mut fb_ctx = (
            FrameBuf::with_size(audio.channels, block)?,
            Context::new(audio.bps, audio.channels),
        );
        stream.stream_info_mut().set_block_sizes(block, block)?;
        let mut n = 0usize;
        loop {
            let read = src.read_samples(block, &mut fb_ctx)?;
            if read == 0 {
                break;
            }
            let frame = flacenc::encode_fixed_size_frame(
                cfg,
                &fb_ctx.0,
                fb_ctx.1.current_frame_number().unwrap(),
                stream.stream_info(),
            )?;
            stream.add_frame(frame);
            n += 1;
        }
        // a fixed-block-size stream states (B, B) whatever the length of the final block, and
        // "unknown" (0, 0) frame sizes when there is no frame at all
        stream.stream_info_mut().set_block_sizes(block, block)?;
        if n == 0 {
            stream.stream_info_mut().set_frame_sizes(0, 0)?;
        }
        stream.stream_info_mut().set_md5_digest(&fb_ctx.1.md5_digest());
        stream.stream_info_mut().set_total_samples(fb_ctx.1.total_samples());
        Ok(stream)
    });
    match r {
        Ok(Ok(s)) => Ok(s),
        Ok(Err(e)) => Err(EncErr::Api(err_kind(&e), format!("{e}"))),
        Err(p) => Err(EncErr::Panic(p)),
    }
}

#[derive(Debug)]
pub enum SerErr {
    TooBig(usize),
    Api(String),
    Panic(PanicRec),
}

/// Serialises through a `ByteSink` (size-guarded).
pub fn to_bytes<T: BitRepr>(c: &T) -> Result<Vec<u8>, SerErr> {
    let bits = match catch(|| c.count_bits()) {
        Ok(b) => b,
        Err(p) => return Err(SerErr::Panic(p)),
    };
    if bits > SERIALISE_CAP_BITS {
        return Err(SerErr::TooBig(bits));
    }
    match catch(|| {
        let mut sink = ByteSink::with_capacity(bits);
        c.write(&mut sink).map(|()| sink)
    }) {
        Ok(Ok(s)) => {
            let _len = s.len();
            Ok(s.into_inner())
        }
        Ok(Err(e)) => Err(SerErr::Api(format!("{e}"))),
        Err(p) => Err(SerErr::Panic(p)),
    }
}

/// Serialises through `MemSink<u64>`; returns (bit length, bytes).
pub fn to_bytes_u64<T: BitRepr>(c: &T) -> Result<(usize, Vec<u8>), SerErr> {
    let bits = match catch(|| c.count_bits()) {
        Ok(b) => b,
        Err(p) => return Err(SerErr::Panic(p)),
    };
    if bits > SERIALISE_CAP_BITS {
        return Err(SerErr::TooBig(bits));
    }
    match catch(|| {
        let mut sink = MemSink::<u64>::with_capacity(bits);
        c.write(&mut sink).map(|()| sink)
    }) {
        Ok(Ok(s)) => {
            let len = s.len();
            let mut out = vec![0u8; (len + 7) / 8];
            s.write_to_byte_slice(&mut out);
            Ok((len, out))
        }
        Ok(Err(e)) => Err(SerErr::Api(format!("{e}"))),
        Err(p) => Err(SerErr::Panic(p)),
    }
}

pub fn mem_source(audio: &Arc<Audio>, mode: FillMode, hint: bool) -> TestSource {
    TestSource::new(Arc::clone(audio), mode, hint)
}
