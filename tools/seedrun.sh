#!/bin/bash
# tools/seedrun.sh <name> <patch> <tier> [ids...]
# Runs the checks against a seeded change WITHOUT touching /repo: a scratch worktree of /repo's HEAD
# under /tmp/seedrun/repo gets the patch, a scratch copy of /verif (harness path-dependencies
# rewritten to that worktree, own target dir) runs ./check. For bulk triage while /verif is being
# edited; the results recorded in seeded/<id>/meta.json come from tools/seedcheck.sh, which applies
# the patch to /repo itself as the task prescribes.
name=$1; patch=$(readlink -f "$2"); tier=${3:-quick}; shift 3
ids=${@:-C01 C02 C03 C04 C05 C06 C07 C08 C09 C10 C11 C12 C13 C14 C15 C16 C17 C18 C19 C20}
S=${SEEDRUN_DIR:-/tmp/seedrun}
SRC=${VERIF_SRC:-/verif}
mkdir -p $S/out
if [ ! -d $S/repo ]; then git -C /repo worktree add --detach $S/repo HEAD >/dev/null 2>&1 || exit 9; fi
( cd $S/repo && git checkout -q --detach $(git -C /repo rev-parse HEAD) && git checkout -- . && git clean -fdq src tests 2>/dev/null; git apply "$patch" ) || { echo "SEEDRUN $name patch-does-not-apply"; exit 9; }
rsync -a --delete --exclude target --exclude .git --exclude evidence/replay --exclude seeded $SRC/ $S/verif/
sed -i "s#\"/repo\"#\"$S/repo\"#" $S/verif/harness/Cargo.toml $S/verif/harness-digest/Cargo.toml $S/verif/fuzz/Cargo.toml
fired=""; silent=""; other=""
for id in $ids; do
  VERIF_ROOT=$S/verif $S/verif/check $id $tier > $S/out/$name.$id.log 2>&1; rc=$?
  case $rc in 1) fired="$fired $id" ;; 0) silent="$silent $id" ;; *) other="$other $id(rc=$rc)" ;; esac
done
( cd $S/repo && git checkout -- . && git clean -fdq src tests 2>/dev/null )
echo "SEEDRUN $name tier=$tier FIRED:[$fired ] SILENT:[$silent ] OTHER:[$other ]"
