//! C07 (configuration verification), C10 (history independence), C19 (TOML round trip).

use crate::common::{catch, finish, run_cases, Ctx, Finish, Outcome};
use crate::enc;
use crate::gen::{self, Audio, ConfigOpts, FillMode, TestSource};
use crate::mon_stream::*;
use crate::prng::{self, Rng};
use crate::refdec;
use flacenc::bitsink::MemSink;
use flacenc::component::BitRepr;
use flacenc::config::{self, OrderSel, Window};
use flacenc::error::Verify;
use flacenc::source::Fill;
use serde_json::json;
use std::collections::HashMap;
use std::num::NonZeroUsize;
use std::sync::{Arc, Mutex};

fn rpj(ctx: &Ctx, sub: &str, idx: u64, extra: serde_json::Value) -> serde_json::Value {
    json!({"monitor": ctx.prop, "sub": sub, "index": idx, "seed": ctx.seed, "tier": ctx.tier.name(), "case": extra})
}

pub use crate::gen::experimental_compiled_in;

/// The documented ranges, restated independently of the crate's `verify`.
pub fn documented_valid(c: &config::Encoder) -> Result<(), &'static str> {
    if !(32..=32767).contains(&c.block_size) {
        return Err("block_size");
    }
    let sf = &c.subframe_coding;
    if sf.fixed.max_order > 4 {
        return Err("fixed.max_order");
    }
    if let OrderSel::ApproxEnt { partitions } = sf.fixed.order_sel {
        if !(1..=64).contains(&partitions) {
            return Err("fixed.order_sel.partitions");
        }
    }
    if !(1..=24).contains(&sf.qlpc.lpc_order) {
        return Err("qlpc.lpc_order");
    }
    if !(1..=15).contains(&sf.qlpc.quant_precision) {
        return Err("qlpc.quant_precision");
    }
    if sf.prc.max_parameter > 14 {
        return Err("prc.max_parameter");
    }
    if let Window::Tukey { alpha } = sf.qlpc.window {
        if alpha.is_nan() || !(0.0..=1.0).contains(&alpha) {
            return Err("qlpc.window.alpha");
        }
    }
    if !experimental_compiled_in() {
        if sf.qlpc.use_direct_mse {
            return Err("qlpc.use_direct_mse");
        }
        if sf.qlpc.mae_optimization_steps != 0 {
            return Err("qlpc.mae_optimization_steps");
        }
    }
    Ok(())
}

#[derive(Clone, Debug)]
enum Tweak {
    Block(usize),
    FixedOrder(usize),
    Partitions(usize),
    BitCount,
    MaxParam(usize),
    LpcOrder(usize),
    Precision(usize),
    Alpha(f32),
    Rect,
    DirectMse(bool),
    Mae(usize),
    Workers(Option<usize>),
    Multithread(bool),
    Stereo(u8),
    UseFlags(u8),
}

fn apply(c: &mut config::Encoder, t: &Tweak) {
    let sf = &mut c.subframe_coding;
    match t {
        Tweak::Block(v) => c.block_size = *v,
        Tweak::FixedOrder(v) => sf.fixed.max_order = *v,
        Tweak::Partitions(v) => sf.fixed.order_sel = OrderSel::ApproxEnt { partitions: *v },
        Tweak::BitCount => sf.fixed.order_sel = OrderSel::BitCount,
        Tweak::MaxParam(v) => sf.prc.max_parameter = *v,
        Tweak::LpcOrder(v) => sf.qlpc.lpc_order = *v,
        Tweak::Precision(v) => sf.qlpc.quant_precision = *v,
        Tweak::Alpha(a) => sf.qlpc.window = Window::Tukey { alpha: *a },
        Tweak::Rect => sf.qlpc.window = Window::Rectangle,
        Tweak::DirectMse(b) => sf.qlpc.use_direct_mse = *b,
        Tweak::Mae(v) => sf.qlpc.mae_optimization_steps = *v,
        Tweak::Workers(w) => c.workers = w.and_then(NonZeroUsize::new),
        Tweak::Multithread(b) => c.multithread = *b,
        Tweak::Stereo(bits) => {
            c.stereo_coding.use_leftside = bits & 1 != 0;
            c.stereo_coding.use_rightside = bits & 2 != 0;
            c.stereo_coding.use_midside = bits & 4 != 0;
        }
        Tweak::UseFlags(bits) => {
            sf.use_constant = bits & 1 != 0;
            sf.use_fixed = bits & 2 != 0;
            sf.use_lpc = bits & 4 != 0;
        }
    }
}

fn tweak_field(t: &Tweak) -> usize {
    match t {
        Tweak::Block(_) => 0,
        Tweak::FixedOrder(_) => 1,
        Tweak::Partitions(_) | Tweak::BitCount => 2,
        Tweak::MaxParam(_) => 3,
        Tweak::LpcOrder(_) => 4,
        Tweak::Precision(_) => 5,
        Tweak::Alpha(_) | Tweak::Rect => 6,
        Tweak::DirectMse(_) => 7,
        Tweak::Mae(_) => 8,
        Tweak::Workers(_) => 9,
        Tweak::Multithread(_) => 10,
        Tweak::Stereo(_) => 11,
        Tweak::UseFlags(_) => 12,
    }
}

fn boundary_tweaks() -> Vec<Tweak> {
    let m = usize::MAX;
    let mut v = vec![];
    // range boundaries, and block sizes on / next to the frame header's block-size code classes
    // (192, 576*2^n incl. the multiples 9216 and 18432 that are not coded members, 256*2^n)
    for x in [0usize, 31, 32, 33, 4096, 32767, 32768, 65535, 65536, (1 << 32) + 4096, m, 192, 255, 256, 257, 576, 1152, 2304, 4608, 9216, 18432, 8192, 16384] {
        v.push(Tweak::Block(x));
    }
    for x in [0usize, 1, 4, 5, 255, 256, m] {
        v.push(Tweak::FixedOrder(x));
    }
    for x in [0usize, 1, 2, 63, 64, 65, 256, m] {
        v.push(Tweak::Partitions(x));
    }
    v.push(Tweak::BitCount);
    for x in [0usize, 1, 13, 14, 15, 16, 255, m] {
        v.push(Tweak::MaxParam(x));
    }
    for x in [0usize, 1, 2, 23, 24, 25, 32, 33, m] {
        v.push(Tweak::LpcOrder(x));
    }
    for x in [0usize, 1, 2, 14, 15, 16, 32, m] {
        v.push(Tweak::Precision(x));
    }
    for a in [-0.0f32, -f32::EPSILON, -1e-30, 0.0, 1.0 / 1_048_576.0, 0.4, 1.0 - f32::EPSILON, 1.0, 1.0 + f32::EPSILON, 2.0, f32::INFINITY, f32::NEG_INFINITY, f32::NAN, f32::MIN_POSITIVE] {
        v.push(Tweak::Alpha(a));
    }
    v.push(Tweak::Rect);
    v.push(Tweak::DirectMse(true));
    v.push(Tweak::DirectMse(false));
    for x in [0usize, 1, 2, m] {
        v.push(Tweak::Mae(x));
    }
    for w in [None, Some(1usize), Some(2), Some(32), Some(1025), Some(usize::MAX / 2 + 1), Some(usize::MAX)] {
        v.push(Tweak::Workers(w));
    }
    v.push(Tweak::Multithread(true));
    v.push(Tweak::Multithread(false));
    for b in 0..8u8 {
        v.push(Tweak::Stereo(b));
        v.push(Tweak::UseFlags(b));
    }
    v
}

/// 12 probe inputs for an accepted configuration.
fn probe_corpus(block: usize) -> Vec<Arc<Audio>> {
    let mut v = vec![];
    // final-frame lengths: below 16, below 64 (no prediction), and spread over 64..=192 where the
    // entropy estimator's partitions (up to 64) become shorter than the predictor warm-up
    const TAILS: [usize; 12] = [17, 64, 67, 80, 100, 127, 128, 150, 191, 192, 5, 257];
    let specs: [(usize, usize, &str); 12] = [
        (8, 1, "silence"),
        (8, 2, "noise_full"),
        (12, 1, "alt2"),
        (12, 2, "sine"),
        (16, 1, "sine_noise"),
        (16, 2, "alt3"),
        (16, 5, "noise_full"),
        (20, 1, "sine_loud_noise"),
        (20, 2, "alt2"),
        (24, 1, "noise_full"),
        (24, 2, "sine_clipped"),
        (24, 5, "impulse_mid"),
    ];
    for (i, (bps, ch, fam)) in specs.iter().enumerate() {
        let mut rng = Rng::for_case(0xC07, "probe", i as u64);
        let l = if block <= 1200 {
            block * (1 + i % 2) + TAILS[i] % block
        } else if i % 2 == 0 {
            1500 + TAILS[i]
        } else {
            TAILS[i]
        };
        let mut samples = vec![0i32; l * ch];
        for c in 0..*ch {
            let chan = gen::gen_channel(&mut rng, fam, *bps, l);
            for (t, x) in chan.iter().enumerate() {
                samples[t * ch + c] = *x;
            }
        }
        v.push(Arc::new(Audio { channels: *ch, bps: *bps, rate: 44100, samples, recipe: format!("probe{i}:{fam}") }));
    }
    if block > 1200 {
        // the probes above never fill a large block: one cheap input of exactly one full block plus
        // a 5-sample tail, so that a frame of `block` samples is really emitted for every accepted
        // block size
        let l = block + 5;
        let samples: Vec<i32> = (0..l).map(|t| ((t * 37) % 201) as i32 - 100 + if t % 97 == 0 { 3000 } else { 0 }).collect();
        v.push(Arc::new(Audio { channels: 1, bps: 16, rate: 48000, samples, recipe: "probe12:full_block+5".into() }));
    }
    v
}

fn check_config(ctx: &Ctx, sub: &str, idx: u64, c: &config::Encoder, desc: &str, probes: bool, out: &mut Outcome) {
    out.evaluations += 1;
    let want = documented_valid(c);
    let rp = || rpj(ctx, sub, idx, json!({"config": format!("{c:?}"), "tweaks": desc}));
    let got = catch(|| c.verify());
    let got = match got {
        Ok(g) => g,
        Err(p) => {
            out.violation(format!("C07|verify-panic|{}", p.site()), p.short(), rp());
            return;
        }
    };
    let got2 = c.clone().into_verified().is_ok();
    if got.is_ok() != got2 {
        out.violation("C07|verify-vs-into_verified", "verify() and into_verified() disagree".to_string(), rp());
    }
    match (&want, &got) {
        (Ok(()), Ok(())) => out.count("accepted"),
        (Err(_), Err(e)) => {
            out.count("rejected");
            if e.path().is_empty() {
                out.violation("C07|empty-error-path", format!("{e}"), rp());
            }
        }
        (Err(f), Ok(())) => {
            out.violation(format!("C07|accepts-invalid|{f}"), format!("verification accepts a configuration whose `{f}` is outside its documented range ({desc})"), rp());
        }
        (Ok(()), Err(e)) => {
            out.violation(format!("C07|rejects-valid|{}", e.path()), format!("verification rejects a configuration inside the documented ranges: {e} ({desc})"), rp());
        }
    }
    if !probes || want.is_err() || got.is_err() {
        return;
    }
    // (pass `exp` only) the number of IRLS iterations is unbounded in an experimental build; a
    // configuration asking for billions of them is accepted and would simply never finish:
    // a cost bound of the workload, not a verdict
    if c.subframe_coding.qlpc.mae_optimization_steps > 40 {
        out.count("probes_skipped_iteration_count");
        return;
    }
    let v = c.clone().into_verified().unwrap();
    let mut v2 = c.clone();
    // keep thread counts sane for the probe runs
    if v2.multithread && v2.workers.is_none() {
        v2.workers = NonZeroUsize::new(2);
    }
    let v = if v2.workers != c.workers { v2.into_verified().unwrap() } else { v };
    for a in probe_corpus(c.block_size) {
        let src = TestSource::new(Arc::clone(&a), FillMode::Int, true);
        out.count("probe_encodes");
        match enc::encode_stream(&v, src, c.block_size) {
            Ok(stream) => match enc::to_bytes(&stream) {
                Ok(bytes) => {
                    let rep = refdec::decode_stream(&bytes);
                    if let Some(i) = rep.first(&[refdec::Class::Fatal, refdec::Class::Integrity]) {
                        out.violation(format!("C07|probe-undecodable|{}", i.clause), format!("{}: {} ({desc})", a.recipe, i.detail), rp());
                    } else if rep.pcm != a.samples {
                        out.violation("C07|probe-lossy", format!("{}: decoded audio differs from the input ({desc})", a.recipe), rp());
                    }
                }
                Err(e) => out.violation("C07|probe-write-failed", format!("{}: {e:?}", a.recipe).chars().take(300).collect::<String>(), rp()),
            },
            Err(enc::EncErr::Panic(p)) => {
                out.violation(format!("C07|panic|{}", p.site()), format!("{}: an accepted configuration panics: {} ({desc})", a.recipe, p.short()), rp());
                break;
            }
            Err(enc::EncErr::Api(k, m)) => out.violation(format!("C07|probe-refused|{k}"), format!("{}: {m} ({desc})", a.recipe), rp()),
        }
    }
}

pub fn run_c07(ctx: &Ctx) -> i32 {
    let mut out = Outcome::default();
    let tweaks = Arc::new(boundary_tweaks());
    // singles
    let t1 = Arc::clone(&tweaks);
    run_cases(ctx, "single", tweaks.len() as u64, &mut out, |idx, out| {
        let t = &t1[idx as usize];
        let mut c = config::Encoder::default();
        c.multithread = false;
        apply(&mut c, t);
        let d = format!("{t:?}");
        out.distinct.insert(prng::hash_str(&d));
        check_config(ctx, "single", idx, &c, &d, true, out);
        if idx < 3 {
            out.sample(json!({"sub": "single", "tweak": d, "documented_valid": documented_valid(&c).is_ok()}));
        }
    });
    // pairs of boundary values of two different fields
    let mut pairs: Vec<(usize, usize)> = vec![];
    for i in 0..tweaks.len() {
        for j in (i + 1)..tweaks.len() {
            if tweak_field(&tweaks[i]) != tweak_field(&tweaks[j]) {
                pairs.push((i, j));
            }
        }
    }
    let npairs = pairs.len() as u64;
    let pairs = Arc::new(pairs);
    let n = ctx.tier.pick(2000.min(npairs), npairs);
    let t2 = Arc::clone(&tweaks);
    let p2 = Arc::clone(&pairs);
    run_cases(ctx, "pair", n, &mut out, |idx, out| {
        let mut rng = Rng::for_case(ctx.seed, "C07.pair", idx);
        let k = if n == npairs { idx as usize } else { rng.usize_below(p2.len()) };
        let (i, j) = p2[k];
        let mut c = config::Encoder::default();
        c.multithread = false;
        apply(&mut c, &t2[i]);
        apply(&mut c, &t2[j]);
        let d = format!("{:?} + {:?}", t2[i], t2[j]);
        out.distinct.insert(prng::hash_str(&d));
        // probes on a third of the accepted pairs (each costs 12 encodes)
        check_config(ctx, "pair", idx, &c, &d, k % 3 == 0, out);
    });
    // random full assignments (valid by construction, then 0-2 boundary tweaks)
    let n = ctx.tier.pick(900, 24_000);
    let t3 = Arc::clone(&tweaks);
    run_cases(ctx, "random", n, &mut out, |idx, out| {
        let mut rng = Rng::for_case(ctx.seed, "C07.random", idx);
        let mut c = gen::gen_config(&mut rng, &ConfigOpts::default());
        c.block_size = gen::pick_block_size(&mut rng, 32767);
        let mut d = String::from("random");
        for _ in 0..rng.usize_below(3) {
            let t = rng.pick(&t3).clone();
            apply(&mut c, &t);
            d.push_str(&format!(" + {t:?}"));
        }
        out.distinct.insert(prng::hash_str(&format!("{c:?}")));
        check_config(ctx, "random", idx, &c, &d, idx % 2 == 0, out);
    });
    let fin = Finish {
        level: "exploration",
        rule: "O1: an independent restatement of the documented ranges must equal verify()/into_verified() for every configuration; O2: every accepted configuration encodes a 12-input probe corpus (all widths, 1/2/5 channels, silence/alternating/noise/sine/impulse, a short final block) without panicking and losslessly (refdec). 'single' = each boundary value of each field with all others default; 'pair' = pairs of boundary values of two different fields (quick: 900 sampled, thorough: all); 'random' = random valid assignments plus 0-2 boundary tweaks; distinct by configuration",
        assumptions: vec![format!("experimental feature compiled in: {} (from build_info::FEATURES); the predicate follows it", experimental_compiled_in())],
        exhaustive: Some(false),
        floors: vec![("accepted configurations".into(), out.stats.get("accepted").copied().unwrap_or(0), 50), ("rejected configurations".into(), out.stats.get("rejected").copied().unwrap_or(0), 50)],
        extra: json!({"boundary_values": tweaks.len(), "pairs_total": npairs}),
    };
    finish(ctx, out, fin)
}

// ================================================================ C19

fn cfg_eq(a: &config::Encoder, b: &config::Encoder) -> Result<(), String> {
    macro_rules! chk {
        ($($f:tt)+) => {
            if a.$($f)+ != b.$($f)+ {
                return Err(format!("{}: {:?} vs {:?}", stringify!($($f)+), a.$($f)+, b.$($f)+));
            }
        };
    }
    chk!(block_size);
    chk!(multithread);
    chk!(workers);
    chk!(stereo_coding.use_leftside);
    chk!(stereo_coding.use_rightside);
    chk!(stereo_coding.use_midside);
    chk!(subframe_coding.use_constant);
    chk!(subframe_coding.use_fixed);
    chk!(subframe_coding.use_lpc);
    chk!(subframe_coding.fixed.max_order);
    chk!(subframe_coding.prc.max_parameter);
    chk!(subframe_coding.qlpc.lpc_order);
    chk!(subframe_coding.qlpc.quant_precision);
    chk!(subframe_coding.qlpc.use_direct_mse);
    chk!(subframe_coding.qlpc.mae_optimization_steps);
    let os = |o: &OrderSel| match o {
        OrderSel::BitCount => None,
        OrderSel::ApproxEnt { partitions } => Some(*partitions),
        _ => Some(usize::MAX),
    };
    if os(&a.subframe_coding.fixed.order_sel) != os(&b.subframe_coding.fixed.order_sel) {
        return Err(format!("fixed.order_sel: {:?} vs {:?}", a.subframe_coding.fixed.order_sel, b.subframe_coding.fixed.order_sel));
    }
    let w = |w: &Window| match w {
        Window::Rectangle => None,
        Window::Tukey { alpha } => Some(alpha.to_bits()),
        _ => Some(u32::MAX),
    };
    if w(&a.subframe_coding.qlpc.window) != w(&b.subframe_coding.qlpc.window) {
        return Err(format!("qlpc.window: {:?} vs {:?}", a.subframe_coding.qlpc.window, b.subframe_coding.qlpc.window));
    }
    Ok(())
}

/// The documented defaults (doc comments of config.rs / constant.rs), transcribed.
fn documented_default() -> config::Encoder {
    let mut c = config::Encoder::default();
    c.block_size = 4096;
    c.multithread = flacenc::constant::build_info::FEATURES.split(',').any(|f| f.trim() == "par");
    c.workers = None;
    c.stereo_coding.use_leftside = true;
    c.stereo_coding.use_rightside = true;
    c.stereo_coding.use_midside = true;
    c.subframe_coding.use_constant = true;
    c.subframe_coding.use_fixed = true;
    c.subframe_coding.use_lpc = true;
    c.subframe_coding.fixed.max_order = 4;
    c.subframe_coding.fixed.order_sel = OrderSel::ApproxEnt { partitions: 16 };
    c.subframe_coding.qlpc.lpc_order = 10;
    c.subframe_coding.qlpc.quant_precision = 15;
    c.subframe_coding.qlpc.use_direct_mse = false;
    c.subframe_coding.qlpc.mae_optimization_steps = 0;
    c.subframe_coding.qlpc.window = Window::Tukey { alpha: 0.4 };
    c.subframe_coding.prc.max_parameter = 14;
    c
}

/// Deletable paths: (path, whole-section?)
const DELETABLE: [&str; 24] = [
    "block_size",
    "multithread",
    "workers",
    "stereo_coding",
    "stereo_coding.use_leftside",
    "stereo_coding.use_rightside",
    "stereo_coding.use_midside",
    "subframe_coding",
    "subframe_coding.use_constant",
    "subframe_coding.use_fixed",
    "subframe_coding.use_lpc",
    "subframe_coding.fixed",
    "subframe_coding.fixed.max_order",
    "subframe_coding.fixed.order_sel",
    "subframe_coding.fixed.order_sel.partitions",
    "subframe_coding.qlpc",
    "subframe_coding.qlpc.lpc_order",
    "subframe_coding.qlpc.quant_precision",
    "subframe_coding.qlpc.use_direct_mse",
    "subframe_coding.qlpc.mae_optimization_steps",
    "subframe_coding.qlpc.window",
    "subframe_coding.prc",
    "subframe_coding.prc.max_parameter",
    "",
];

fn toml_delete(v: &mut toml::Value, path: &str) -> bool {
    let parts: Vec<&str> = path.split('.').collect();
    let mut cur = v;
    for (i, p) in parts.iter().enumerate() {
        let Some(t) = cur.as_table_mut() else { return false };
        if i + 1 == parts.len() {
            return t.remove(*p).is_some();
        }
        match t.get_mut(*p) {
            Some(n) => cur = n,
            None => return false,
        }
    }
    false
}

/// Copies the documented default into `c` for everything under `path`.
fn reset_to_default(c: &mut config::Encoder, path: &str) {
    let d = documented_default();
    match path {
        "block_size" => c.block_size = d.block_size,
        "multithread" => c.multithread = d.multithread,
        "workers" => c.workers = d.workers,
        "stereo_coding" => c.stereo_coding = d.stereo_coding,
        "stereo_coding.use_leftside" => c.stereo_coding.use_leftside = true,
        "stereo_coding.use_rightside" => c.stereo_coding.use_rightside = true,
        "stereo_coding.use_midside" => c.stereo_coding.use_midside = true,
        "subframe_coding" => c.subframe_coding = d.subframe_coding,
        "subframe_coding.use_constant" => c.subframe_coding.use_constant = true,
        "subframe_coding.use_fixed" => c.subframe_coding.use_fixed = true,
        "subframe_coding.use_lpc" => c.subframe_coding.use_lpc = true,
        "subframe_coding.fixed" => c.subframe_coding.fixed = d.subframe_coding.fixed,
        "subframe_coding.fixed.max_order" => c.subframe_coding.fixed.max_order = 4,
        "subframe_coding.fixed.order_sel" => c.subframe_coding.fixed.order_sel = d.subframe_coding.fixed.order_sel,
        "subframe_coding.fixed.order_sel.partitions" => {
            if let OrderSel::ApproxEnt { partitions } = &mut c.subframe_coding.fixed.order_sel {
                *partitions = 16;
            }
        }
        "subframe_coding.qlpc" => c.subframe_coding.qlpc = d.subframe_coding.qlpc,
        "subframe_coding.qlpc.lpc_order" => c.subframe_coding.qlpc.lpc_order = 10,
        "subframe_coding.qlpc.quant_precision" => c.subframe_coding.qlpc.quant_precision = 15,
        "subframe_coding.qlpc.use_direct_mse" => c.subframe_coding.qlpc.use_direct_mse = false,
        "subframe_coding.qlpc.mae_optimization_steps" => c.subframe_coding.qlpc.mae_optimization_steps = 0,
        "subframe_coding.qlpc.window" => c.subframe_coding.qlpc.window = d.subframe_coding.qlpc.window,
        "subframe_coding.prc" => c.subframe_coding.prc = d.subframe_coding.prc,
        "subframe_coding.prc.max_parameter" => c.subframe_coding.prc.max_parameter = 14,
        _ => {}
    }
}

fn random_any_config(rng: &mut Rng) -> config::Encoder {
    // any value TOML can carry (not only valid ones)
    let mut c = gen::gen_config(rng, &ConfigOpts::default());
    let big = |rng: &mut Rng| -> usize {
        match rng.usize_below(6) {
            0 => 0,
            1 => rng.usize_below(70),
            2 => rng.usize_below(70_000),
            3 => (rng.next_u64() >> 1) as usize, // <= i64::MAX
            4 => i64::MAX as usize,
            _ => rng.usize_below(40),
        }
    };
    c.block_size = big(rng);
    if rng.flip() {
        c.subframe_coding.fixed.max_order = big(rng);
    }
    if rng.flip() {
        c.subframe_coding.prc.max_parameter = big(rng);
    }
    if rng.flip() {
        c.subframe_coding.qlpc.lpc_order = big(rng);
    }
    if rng.flip() {
        c.subframe_coding.qlpc.quant_precision = big(rng);
    }
    if rng.chance(1, 4) {
        c.subframe_coding.qlpc.mae_optimization_steps = big(rng);
    }
    if rng.chance(1, 4) {
        c.subframe_coding.qlpc.use_direct_mse = true;
    }
    if rng.flip() {
        c.subframe_coding.fixed.order_sel = OrderSel::ApproxEnt { partitions: big(rng) };
    }
    c.workers = match rng.usize_below(3) {
        0 => None,
        1 => NonZeroUsize::new(1 + rng.usize_below(64)),
        _ => NonZeroUsize::new(big(rng).max(1)),
    };
    if rng.chance(1, 3) {
        let a = match rng.usize_below(8) {
            0 => -0.0f32,
            1 => f32::MIN_POSITIVE,
            2 => f32::from_bits(rng.next_u64() as u32),
            3 => 1e-10,
            4 => 0.1 + 0.2,
            5 => 1.0e20,
            _ => rng.f64() as f32,
        };
        // NaN / infinities cannot be compared field by field after a text round trip reliably:
        // inf and nan ARE valid TOML floats, keep them
        c.subframe_coding.qlpc.window = Window::Tukey { alpha: a };
    }
    c
}

fn c19_roundtrip(ctx: &Ctx, sub: &'static str, n: u64, out: &mut Outcome) {
    run_cases(ctx, sub, n, out, |idx, out| {
        let mut rng = Rng::for_case(ctx.seed, &format!("C19.{sub}"), idx);
        let c = if sub == "alphabits" {
            // only the window parameter varies: any f32 bit pattern inside [0, 1] (uniform over the
            // patterns, so tiny exponents are as likely as values near 1); index 0 is the one value
            // known not to survive the text round trip (known_findings.txt)
            let mut c = config::Encoder::default();
            let bits = if idx == 0 { 0x15AE_43FD } else { (rng.next_u64() % 0x3F80_0001) as u32 };
            c.subframe_coding.qlpc.window = Window::Tukey { alpha: f32::from_bits(bits) };
            c
        } else if idx == 0 {
            config::Encoder::default()
        } else {
            random_any_config(&mut rng)
        };
        let rp = || rpj(ctx, sub, idx, json!({"config": format!("{c:?}")}));
        out.evaluations += 1;
        let text = match catch(|| toml::to_string(&c)) {
            Ok(Ok(t)) => t,
            Ok(Err(e)) => {
                out.violation("C19|serialise-fails", format!("{e}"), rp());
                return;
            }
            Err(p) => {
                out.violation(format!("C19|serialise-panics|{}", p.site()), p.short(), rp());
                return;
            }
        };
        let back: config::Encoder = match catch(|| toml::from_str::<config::Encoder>(&text)) {
            Ok(Ok(b)) => b,
            Ok(Err(e)) => {
                out.violation("C19|own-output-does-not-parse", format!("{e}; document:\n{text}"), rp());
                return;
            }
            Err(p) => {
                out.violation(format!("C19|parse-panics|{}", p.site()), p.short(), rp());
                return;
            }
        };
        out.distinct.insert(prng::hash_str(&text));
        // (a)
        let nan = matches!(c.subframe_coding.qlpc.window, Window::Tukey { alpha } if alpha.is_nan());
        if !nan {
            if let Err(d) = cfg_eq(&c, &back) {
                // a window parameter that changes in the text round trip is named by its bit
                // pattern: one such value is a recorded finding, any other one is a new violation
                let sig = match (&c.subframe_coding.qlpc.window, &back.subframe_coding.qlpc.window) {
                    (Window::Tukey { alpha: a }, Window::Tukey { alpha: b }) if a.to_bits() != b.to_bits() => format!("C19|roundtrip-differs|alpha-bits=0x{:08x}", a.to_bits()),
                    _ => "C19|roundtrip-differs".to_string(),
                };
                out.violation(sig, format!("{d}; document:\n{text}"), rp());
            }
            if sub == "alphabits" {
                // this sub-workload is about clause (a) only
                return;
            }
        } else {
            out.count("nan_alpha_roundtrips");
            if !matches!(back.subframe_coding.qlpc.window, Window::Tukey { alpha } if alpha.is_nan()) {
                out.violation("C19|roundtrip-differs", "NaN alpha did not survive".to_string(), rp());
            }
        }
        // (c)
        if c.verify().is_ok() != back.verify().is_ok() {
            out.violation("C19|verify-differs", format!("in-memory verify ok={} but parsed verify ok={}", c.verify().is_ok(), back.verify().is_ok()), rp());
        }
        // (b) deletions
        let Ok(val) = toml::from_str::<toml::Value>(&text) else {
            out.violation("C19|not-toml", "serialised text is not valid TOML".to_string(), rp());
            return;
        };
        // (c) once more, for a document parsed straight into the "verified" wrapper
        // (error::Verified<config::Encoder> implements Deserialize): the parse must succeed
        // exactly when verification of the in-memory value does, and then hold that value
        {
            use flacenc::error::Verified;
            let want = c.verify().is_ok();
            let via_toml = catch(|| val.clone().try_into::<Verified<config::Encoder>>());
            let via_json = catch(|| serde_json::to_string(&c).ok().map(|j| serde_json::from_str::<Verified<config::Encoder>>(&j)));
            for (how, got) in [("toml::Value::try_into", via_toml.map(|r| r.ok())), ("serde_json::from_str", via_json.map(|r| r.and_then(|r| r.ok())))] {
                match got {
                    Ok(Some(v)) => {
                        out.count("parsed_as_verified_ok");
                        if !want {
                            out.violation("C19|verify-differs|parsed-as-Verified", format!("{how}: a configuration that verification rejects parses into Verified<Encoder>; document:\n{text}"), rp());
                        } else if !nan {
                            if let Err(d) = cfg_eq(&c, &v) {
                                out.violation("C19|roundtrip-differs|parsed-as-Verified", format!("{how}: {d}"), rp());
                            }
                        }
                    }
                    Ok(None) => {
                        out.count("parsed_as_verified_err");
                        // serde_json cannot carry NaN / infinite alphas (they become null): not judged
                        let finite = !matches!(c.subframe_coding.qlpc.window, Window::Tukey { alpha } if !alpha.is_finite());
                        if want && (how != "serde_json::from_str" || finite) {
                            out.violation("C19|verify-differs|parsed-as-Verified", format!("{how}: a configuration that verification accepts does not parse into Verified<Encoder>; document:\n{text}"), rp());
                        }
                    }
                    Err(p) => out.violation(format!("C19|parse-panics|{}", p.site()), p.short(), rp()),
                }
            }
        }
        let rounds = 1 + rng.usize_below(6);
        for _ in 0..rounds {
            let mut v = val.clone();
            let mut expect = c.clone();
            let k = 1 + rng.usize_below(4);
            let mut deleted = vec![];
            for _ in 0..k {
                let p = *rng.pick(&DELETABLE);
                if p.is_empty() {
                    // delete everything
                    v = toml::Value::Table(Default::default());
                    expect = documented_default();
                    deleted.push("<all>");
                    continue;
                }
                if toml_delete(&mut v, p) {
                    reset_to_default(&mut expect, p);
                    deleted.push(p);
                }
            }
            if deleted.is_empty() {
                continue;
            }
            out.evaluations += 1;
            let doc = toml::to_string(&v).unwrap_or_default();
            match catch(|| toml::from_str::<config::Encoder>(&doc)) {
                Ok(Ok(parsed)) => {
                    out.count("deletion_documents");
                    for d in &deleted {
                        out.set_insert("deleted_paths_seen", *d);
                    }
                    if nan {
                        continue;
                    }
                    if let Err(d) = cfg_eq(&expect, &parsed) {
                        let first = deleted.first().copied().unwrap_or("?");
                        out.violation(format!("C19|default-differs|{}", if deleted.len() == 1 { first } else { "multi" }), format!("after deleting {deleted:?}: {d}; document:\n{doc}"), rp());
                    }
                }
                Ok(Err(e)) => out.violation("C19|partial-document-rejected", format!("after deleting {deleted:?}: {e}; document:\n{doc}"), rp()),
                Err(p) => out.violation(format!("C19|parse-panics|{}", p.site()), p.short(), rp()),
            }
        }
        if idx < 2 {
            out.sample(json!({"sub": sub, "document": text}));
        }
    });
}

pub fn run_c19(ctx: &Ctx) -> i32 {
    let mut out = Outcome::default();
    let n = ctx.tier.pick(12_000, 240_000);
    std::env::remove_var("FLACENC_WORKERS");
    c19_roundtrip(ctx, "roundtrip", n, &mut out);
    // the same oracle with the library's worker-count environment override set in this process:
    // serialisation, parsing and the documented defaults must not depend on the environment
    // (set while no harness thread runs; `run_cases` starts and joins its own threads)
    std::env::set_var("FLACENC_WORKERS", "3");
    c19_roundtrip(ctx, "roundtrip_env", n / 3, &mut out);
    c19_roundtrip(ctx, "alphabits", ctx.tier.pick(30_000, 3_000_000), &mut out);
    std::env::remove_var("FLACENC_WORKERS");
    // the documented example of the module docs and the empty document
    run_cases(ctx, "documents", 2, &mut out, |idx, out| {
        out.evaluations += 1;
        out.distinct.insert(0xD0C + idx);
        let doc = if idx == 0 { "" } else { "block_size = 4096\nmultithread = true\n\n[stereo_coding]\nuse_leftside = true\nuse_rightside = true\nuse_midside = true\n\n[subframe_coding]\nuse_constant = true\nuse_fixed = true\nuse_lpc = true\n\n[subframe_coding.fixed]\nmax_order = 4\n\n[subframe_coding.fixed.order_sel]\ntype = \"ApproxEnt\"\npartitions = 32\n\n[subframe_coding.qlpc]\nlpc_order = 10\nquant_precision = 15\nuse_direct_mse = false\nmae_optimization_steps = 0\n\n[subframe_coding.qlpc.window]\ntype = \"Tukey\"\nalpha = 0.4\n\n[subframe_coding.prc]\nmax_parameter = 14\n" };
        match toml::from_str::<config::Encoder>(doc) {
            Ok(c) => {
                let mut want = documented_default();
                if idx == 1 {
                    want.subframe_coding.fixed.order_sel = OrderSel::ApproxEnt { partitions: 32 };
                    want.multithread = true;
                }
                if let Err(d) = cfg_eq(&want, &c) {
                    out.violation("C19|documented-document", format!("document #{idx}: {d}"), rpj(ctx, "documents", idx, json!({})));
                }
                if cfg_eq(&documented_default(), &config::Encoder::default()).is_err() {
                    out.violation("C19|default-impl-vs-docs", "Default::default() differs from the documented defaults".to_string(), rpj(ctx, "documents", idx, json!({})));
                }
            }
            Err(e) => out.violation("C19|documented-document-rejected", format!("{e}"), rpj(ctx, "documents", idx, json!({}))),
        }
    });
    let fin = Finish {
        level: "exploration",
        rule: "random configurations over everything TOML can carry (incl. out-of-range integers up to i64::MAX, odd floats, both enum variants, optional worker count): (a) from_str(to_string(c)) equals c field by field (f32 by bits); (b) 1-6 documents per configuration with 1-4 random keys / sections / `partitions` deleted must parse to the documented default (table transcribed from the doc comments) for exactly the deleted fields; (c) verify() agrees before/after; evaluations = documents parsed; distinct by serialised text",
        assumptions: vec!["enum tags are only deleted together with their table; alpha has no field-level default and is not deleted alone; integers above i64::MAX are outside TOML".into()],
        exhaustive: None,
        floors: vec![("documents with deleted keys parsed".into(), out.stats.get("deletion_documents").copied().unwrap_or(0), 1000)],
        extra: json!({}),
    };
    finish(ctx, out, fin)
}

// ================================================================ C10

#[derive(Clone, Debug)]
enum Call {
    /// stream-level encode -> Stream::write into ByteSink
    Stream(Case),
    /// same, but written into MemSink<u64>
    StreamU64(Case),
    /// frame-level encode of block `k` -> Frame::write
    Frame(Case, usize),
    /// encode, serialise, parse with the crate's parser, re-serialise
    Parse(Case),
    /// writes that fail part-way (sink error, unserialisable header) - always "returns" the empty
    /// result; what matters is that the calls after it are unaffected
    FailedWrites(u64),
    /// frame-level encode of block 0 of the SECOND case from a frame buffer that was filled with
    /// (and encoded from) block 0 of the FIRST case just before: a caller-reused `FrameBuf`.
    /// Must equal the frame-level encode of the second case from a fresh buffer.
    FrameReused(Case, Case),
}

impl Call {
    fn key(&self) -> u64 {
        match self {
            Call::Stream(c) => c.key() ^ 0x11,
            Call::StreamU64(c) => c.key() ^ 0x22,
            Call::Frame(c, k) => c.key() ^ 0x33 ^ ((*k as u64) << 20),
            Call::Parse(c) => c.key() ^ 0x44,
            Call::FailedWrites(k) => crate::prng::mix(*k) ^ 0x55,
            // the reference of a reused-buffer call is the plain frame-level call of the second case
            Call::FrameReused(_, b) => b.key() ^ 0x33,
        }
    }
    fn describe(&self) -> serde_json::Value {
        match self {
            Call::Stream(c) => json!({"call": "stream->ByteSink", "case": c.describe()}),
            Call::StreamU64(c) => json!({"call": "stream->MemSink<u64>", "case": c.describe()}),
            Call::Frame(c, k) => json!({"call": "frame", "block_index": k, "case": c.describe()}),
            Call::Parse(c) => json!({"call": "stream->bytes->parser->bytes", "case": c.describe()}),
            Call::FailedWrites(k) => json!({"call": "1-4 writes that fail part-way (failing sink at a random operation / header with start sample >= 2^36)", "seed": k}),
            Call::FrameReused(a, b) => json!({"call": "frame-level encode from a FrameBuf reused after another block", "first": a.describe(), "case": b.describe()}),
        }
    }
    /// Executes the call on the current thread; result = bytes or an error string.
    fn exec(&self) -> Result<Vec<u8>, String> {
        let r = catch(|| -> Result<Vec<u8>, String> {
            match self {
                Call::FailedWrites(k) => {
                    crate::poison::failing_writes(&mut Rng(*k));
                    Ok(vec![])
                }
                Call::Stream(c) | Call::StreamU64(c) | Call::Parse(c) => {
                    let v = enc::verified(&c.cfg)?;
                    let src = TestSource::new(Arc::clone(&c.audio), c.mode, c.hint);
                    let stream = flacenc::encode_with_fixed_block_size(&v, src, c.block).map_err(|e| format!("{e}"))?;
                    match self {
                        Call::Stream(_) => enc::to_bytes(&stream).map_err(|e| format!("{e:?}")),
                        Call::StreamU64(_) => {
                            let mut s = MemSink::<u64>::new();
                            stream.write(&mut s).map_err(|e| format!("{e}"))?;
                            let mut b = vec![0u8; (s.len() + 7) / 8];
                            s.write_to_byte_slice(&mut b);
                            Ok(b)
                        }
                        _ => {
                            let bytes = enc::to_bytes(&stream).map_err(|e| format!("{e:?}"))?;
                            type NomErr<'a> = nom::error::Error<&'a [u8]>;
                            let (_, s2) = flacenc::component::parser::stream::<NomErr<'_>>(&bytes).map_err(|e| format!("{e:?}").chars().take(100).collect::<String>())?;
                            enc::to_bytes(&s2).map_err(|e| format!("{e:?}"))
                        }
                    }
                }
                Call::FrameReused(a0, c) => {
                    let v = enc::verified(&c.cfg)?;
                    let a = &c.audio;
                    let cap = a0.block.max(c.block);
                    let mut fb = flacenc::source::FrameBuf::with_size(a.channels, cap).map_err(|e| format!("{e}"))?;
                    // first use of the buffer: block 0 of the other case (same channel count)
                    if a0.audio.channels == a.channels {
                        let e0 = a0.block.min(a0.audio.frames());
                        if e0 > 0 {
                            fb.fill_interleaved(&a0.audio.samples[..e0 * a.channels]).map_err(|e| format!("{e}"))?;
                            if let (Ok(v0), Ok(si0)) = (enc::verified(&a0.cfg), flacenc::component::StreamInfo::new(a0.audio.rate, a.channels, a0.audio.bps)) {
                                let _ = flacenc::encode_fixed_size_frame(&v0, &fb, 0, &si0);
                            }
                        }
                    }
                    let end = c.block.min(a.frames());
                    if end == 0 {
                        return Ok(vec![]);
                    }
                    // the second fill goes through the delivery path of the case (integers or bytes)
                    if matches!(c.mode, FillMode::Bytes | FillMode::BytesShort | FillMode::BytesChained) {
                        let by = gen::to_le_bytes(&a.samples[..end * a.channels], (a.bps + 7) / 8);
                        fb.fill_le_bytes(&by, (a.bps + 7) / 8).map_err(|e| format!("{e}"))?;
                    } else {
                        fb.fill_interleaved(&a.samples[..end * a.channels]).map_err(|e| format!("{e}"))?;
                    }
                    let si = flacenc::component::StreamInfo::new(a.rate, a.channels, a.bps).map_err(|e| format!("{e}"))?;
                    let f = flacenc::encode_fixed_size_frame(&v, &fb, 0, &si).map_err(|e| format!("{e}"))?;
                    enc::to_bytes(&f).map_err(|e| format!("{e:?}"))
                }
                Call::Frame(c, k) => {
                    let v = enc::verified(&c.cfg)?;
                    let a = &c.audio;
                    let start = (k * c.block).min(a.frames());
                    let end = (start + c.block).min(a.frames());
                    if end == start {
                        return Ok(vec![]);
                    }
                    let mut fb = flacenc::source::FrameBuf::with_size(a.channels, c.block).map_err(|e| format!("{e}"))?;
                    // through the delivery path of the case (a byte fill cannot carry a value outside
                    // the byte width, so the two paths may legitimately differ on invalid input)
                    if matches!(c.mode, FillMode::Bytes | FillMode::BytesShort | FillMode::BytesChained) {
                        let by = gen::to_le_bytes(&a.samples[start * a.channels..end * a.channels], (a.bps + 7) / 8);
                        fb.fill_le_bytes(&by, (a.bps + 7) / 8).map_err(|e| format!("{e}"))?;
                    } else {
                        fb.fill_interleaved(&a.samples[start * a.channels..end * a.channels]).map_err(|e| format!("{e}"))?;
                    }
                    let si = flacenc::component::StreamInfo::new(a.rate, a.channels, a.bps).map_err(|e| format!("{e}"))?;
                    let f = flacenc::encode_fixed_size_frame(&v, &fb, *k, &si).map_err(|e| format!("{e}"))?;
                    enc::to_bytes(&f).map_err(|e| format!("{e:?}"))
                }
            }
        });
        match r {
            Ok(x) => x,
            Err(p) => Err(format!("PANIC {}", p.short())),
        }
    }
}

/// A pool of related cases: same content family re-cut with different shapes/configs.
fn history_pool(rng: &mut Rng) -> Vec<Case> {
    let mut pool = vec![];
    let base_bps = *rng.pick(&gen::WIDTHS);
    let k = 3 + rng.usize_below(4);
    let alphas: [f32; 8] = [0.0, 1e-6, 1.0 / 65535.0, 1.5 / 65535.0, 0.5, 0.5 + 1.0 / 131072.0, f32::from_bits(0.4f32.to_bits() + 1), 0.4];
    for i in 0..k {
        let bps = if rng.chance(1, 3) { *rng.pick(&gen::WIDTHS) } else { base_bps };
        let channels = *rng.pick(&[1usize, 2, 2, 8, 3]);
        let block = *rng.pick(&[4096usize, 64, 100, 99, 192, 256, 1024, 65, 4095, 576]);
        let len = block + match rng.usize_below(4) {
            0 => 0,
            1 => rng.usize_below(block),
            2 => rng.usize_below(63),
            _ => block,
        };
        let fam = if i % 2 == 0 { *rng.pick(&["noise_full", "sine_loud_noise", "alt2", "laplace"]) } else { *rng.pick(&["tiny_noise", "silence", "sine_noise", "dc_p1", "sine"]) };
        let mut samples = vec![0i32; len * channels];
        for c in 0..channels {
            let f2 = if rng.chance(1, 4) { *rng.pick(&gen::FAMILIES) } else { fam };
            let ch = gen::gen_channel(rng, f2, bps, len);
            for (t, x) in ch.iter().enumerate() {
                samples[t * channels + c] = *x;
            }
        }
        // one pool case in eight holds a sample outside its width in its first block: every call
        // on it must fail the same way in a history as alone (a verdict cached from an earlier,
        // valid use of a buffer or of the thread must not apply)
        if rng.chance(1, 8) && len > 3 {
            let pos = rng.usize_below(len.min(block)) * channels + rng.usize_below(channels);
            samples[pos] = if bps < 24 { 1 << (bps - 1) } else { i32::MAX };
        }
        let mut cfg = gen::gen_config(rng, &ConfigOpts { multithread: Some(false), min_max_parameter: 0, no_experimental: false });
        cfg.multithread = rng.chance(1, 5);
        cfg.workers = NonZeroUsize::new(1 + rng.usize_below(3));
        cfg.subframe_coding.use_lpc = rng.chance(4, 5);
        cfg.subframe_coding.use_fixed = rng.chance(4, 5);
        if rng.chance(2, 3) {
            cfg.subframe_coding.qlpc.window = Window::Tukey { alpha: *rng.pick(&alphas) };
        }
        cfg.block_size = block;
        pool.push(Case {
            audio: Arc::new(Audio { channels, bps, rate: 44100, samples, recipe: format!("pool{i}:{fam}") }),
            cfg,
            block,
            mode: if rng.flip() { FillMode::Int } else { FillMode::Bytes },
            hint: rng.flip(),
        });
    }
    pool
}

type FreshCache = Mutex<HashMap<u64, Arc<Result<Vec<u8>, String>>>>;

fn fresh_result(cache: &FreshCache, call: &Call) -> Arc<Result<Vec<u8>, String>> {
    let k = call.key();
    if let Some(r) = cache.lock().unwrap().get(&k) {
        return Arc::clone(r);
    }
    let c2 = match call {
        Call::FrameReused(_, b) => Call::Frame(b.clone(), 0),
        other => other.clone(),
    };
    // a freshly spawned thread has fresh thread-locals
    let r = std::thread::Builder::new()
        .stack_size(16 << 20)
        .spawn(move || {
            crate::common::mark_harness_thread();
            c2.exec()
        })
        .unwrap()
        .join()
        .unwrap_or_else(|_| Err("fresh thread died".to_string()));
    let r = Arc::new(r);
    let mut g = cache.lock().unwrap();
    if g.len() > 20_000 {
        g.clear();
    }
    g.insert(k, Arc::clone(&r));
    r
}

pub fn run_c10(ctx: &Ctx) -> i32 {
    let mut out = Outcome::default();
    let cache: FreshCache = Mutex::new(HashMap::new());
    let n = ctx.tier.pick(1200, 64_000);
    run_cases(ctx, "history", n, &mut out, |idx, out| {
        let mut rng = Rng::for_case(ctx.seed, "C10.history", idx);
        let pool = history_pool(&mut rng);
        let len = 5 + rng.usize_below(if idx % 10 == 0 { 36 } else { 12 });
        let mut calls = vec![];
        for _ in 0..len {
            let c = rng.pick(&pool).clone();
            calls.push(match rng.usize_below(10) {
                9 => Call::FrameReused(rng.pick(&pool).clone(), c),
                8 => Call::FailedWrites(rng.next_u64()),
                0 => Call::StreamU64(c),
                1 | 2 => {
                    let k = rng.usize_below(2);
                    Call::Frame(c, k)
                }
                3 => Call::Parse(c),
                _ => Call::Stream(c),
            });
        }
        // the history runs on ONE long-lived thread (this harness thread), call by call
        let mut prefix: Vec<serde_json::Value> = vec![];
        for (i, call) in calls.iter().enumerate() {
            let got = call.exec();
            let want = fresh_result(&cache, call);
            out.evaluations += 1;
            out.count(match call {
                Call::Stream(_) => "calls_stream",
                Call::StreamU64(_) => "calls_stream_u64",
                Call::Frame(..) => "calls_frame",
                Call::Parse(_) => "calls_parse",
                Call::FailedWrites(_) => "calls_failed_writes",
                Call::FrameReused(..) => "calls_frame_from_reused_buffer",
            });
            if got != *want {
                let what = match (&got, &*want) {
                    (Ok(a), Ok(b)) => format!("bytes differ (lengths {} vs {}, first difference at {:?})", a.len(), b.len(), a.iter().zip(b.iter()).position(|(x, y)| x != y)),
                    (a, b) => format!("results differ: in-history {:?} vs fresh {:?}", a.as_ref().map(Vec::len), b.as_ref().map(Vec::len)),
                };
                let kind = match call {
                    Call::Stream(_) | Call::StreamU64(_) => "stream",
                    Call::Frame(..) => "frame",
                    Call::Parse(_) => "parse",
                    Call::FailedWrites(_) => "failed-writes",
                    Call::FrameReused(..) => "frame-reused-buffer",
                };
                out.violation(
                    format!("C10|history-dependent|{kind}"),
                    format!("call #{i} of a history of {len}: {what}; call = {}", call.describe()),
                    rpj(ctx, "history", idx, json!({"failing_call_index": i, "failing_call": call.describe(), "previous_calls": prefix.clone()})),
                );
                break;
            }
            if prefix.len() < 40 {
                prefix.push(call.describe());
            }
        }
        out.distinct.insert(prng::hash_str(&format!("{:?}", calls.iter().map(Call::key).collect::<Vec<_>>())));
        if idx < 2 {
            out.sample(json!({"sub": "history", "calls": calls.iter().take(6).map(Call::describe).collect::<Vec<_>>(), "length": len}));
        }
    });
    // targeted pairs: window parameters closer than 2^-16, shrinking/growing block sizes
    let n = ctx.tier.pick(900, 24_000);
    run_cases(ctx, "pairs", n, &mut out, |idx, out| {
        let mut rng = Rng::for_case(ctx.seed, "C10.pairs", idx);
        let bps = *rng.pick(&[16usize, 24]);
        let len = 4096 + rng.usize_below(100);
        let fam = *rng.pick(&["sine_noise", "sine_loud_noise", "sine"]);
        let a = Arc::new(gen::gen_audio_family(&mut rng, 1, bps, 44100, len, fam));
        let alphas: [(f32, f32); 6] = [(0.0, 1e-6), (0.0, 1.4e-5), (0.5, 0.5 + 1.0 / 131072.0), (0.4, f32::from_bits(0.4f32.to_bits() + 1)), (1.0, 1.0 - 1e-6), (1.0 / 65535.0, 1.9 / 65535.0)];
        let (a1, a2) = alphas[(idx % 6) as usize];
        let mk = |alpha: f32, block: usize| {
            let mut cfg = config::Encoder::default();
            cfg.multithread = false;
            cfg.block_size = block;
            cfg.subframe_coding.use_fixed = false;
            cfg.subframe_coding.qlpc.window = Window::Tukey { alpha };
            Case { audio: Arc::clone(&a), cfg, block, mode: FillMode::Int, hint: true }
        };
        let (b1, b2) = *rng.pick(&[(4096usize, 4096usize), (4096, 64), (64, 4096), (100, 99), (1024, 1024)]);
        let first = Call::Stream(mk(a1, b1));
        let second = Call::Stream(mk(a2, b2));
        let _ = first.exec();
        let got = second.exec();
        let want = fresh_result(&cache, &second);
        out.evaluations += 1;
        out.distinct.insert(prng::hash_str(&format!("{a1}/{a2}/{b1}/{b2}/{}", a.recipe)) ^ prng::hash_i32s(&a.samples));
        if got != *want {
            out.violation("C10|history-dependent|stream", format!("Tukey alpha {a1} (block {b1}) then alpha {a2} (block {b2}) on one thread gives different bytes than alpha {a2} alone"), rpj(ctx, "pairs", idx, json!({"alpha_first": a1, "alpha_second": a2, "blocks": [b1, b2], "signal": a.recipe})));
        }
    });
    // one knob: the SAME single-block input encoded twice on one thread under two configurations
    // that differ in exactly one field (every field in turn). The last block encoded by the first
    // call is sample for sample the first block of the second, so anything remembered per thread
    // under a key that leaves that field out (a memo of the last subframe, a cached window, a
    // cached parameter search) answers the second call with the first call's result.
    let n = ctx.tier.pick(1200, 40_000);
    run_cases(ctx, "oneknob", n, &mut out, |idx, out| {
        let mut rng = Rng::for_case(ctx.seed, "C10.oneknob", idx);
        let bps = *rng.pick(&[8usize, 16, 16, 24]);
        let block = *rng.pick(&[64usize, 192, 1024, 4096]);
        let channels = if rng.chance(1, 3) { 2 } else { 1 };
        let fam = *rng.pick(&["sine_noise", "sine_loud_noise", "sine", "laplace"]);
        let a = Arc::new(gen::gen_audio_family(&mut rng, channels, bps, 44100, block, fam));
        let mut base = gen::gen_config(&mut rng, &gen::ConfigOpts { multithread: Some(false), ..Default::default() });
        base.multithread = false;
        base.block_size = block;
        if rng.flip() {
            // make the window matter: prediction by LPC only
            base.subframe_coding.use_fixed = false;
            base.subframe_coding.use_lpc = true;
        }
        let mut other = base.clone();
        let knob = idx % 14;
        let name;
        {
            let sf = &mut other.subframe_coding;
            match knob {
                0 => {
                    name = "qlpc.window (kind)";
                    sf.qlpc.window = match sf.qlpc.window {
                        Window::Rectangle => Window::Tukey { alpha: 0.4 },
                        _ => Window::Rectangle,
                    };
                }
                1 => {
                    name = "qlpc.window.alpha";
                    sf.qlpc.window = match sf.qlpc.window {
                        Window::Tukey { alpha } if alpha < 0.5 => Window::Tukey { alpha: alpha + 0.37 },
                        Window::Tukey { alpha } => Window::Tukey { alpha: alpha - 0.37 },
                        _ => Window::Tukey { alpha: 1.0 },
                    };
                    if matches!(base.subframe_coding.qlpc.window, Window::Rectangle) {
                        base.subframe_coding.qlpc.window = Window::Tukey { alpha: 0.25 };
                    }
                }
                2 => {
                    name = "fixed.order_sel (kind)";
                    sf.fixed.order_sel = match sf.fixed.order_sel {
                        config::OrderSel::BitCount => config::OrderSel::ApproxEnt { partitions: 16 },
                        _ => config::OrderSel::BitCount,
                    };
                }
                3 => {
                    name = "fixed.order_sel.partitions";
                    base.subframe_coding.fixed.order_sel = config::OrderSel::ApproxEnt { partitions: 1 };
                    sf.fixed.order_sel = config::OrderSel::ApproxEnt { partitions: 64 };
                }
                4 => {
                    name = "fixed.max_order";
                    sf.fixed.max_order = (sf.fixed.max_order + 1 + rng.usize_below(4)) % 5;
                }
                5 => {
                    name = "qlpc.lpc_order";
                    sf.qlpc.lpc_order = 1 + (sf.qlpc.lpc_order + rng.usize_below(23)) % 24;
                }
                6 => {
                    name = "qlpc.quant_precision";
                    sf.qlpc.quant_precision = 1 + (sf.qlpc.quant_precision + rng.usize_below(14)) % 15;
                }
                7 => {
                    name = "prc.max_parameter";
                    sf.prc.max_parameter = (sf.prc.max_parameter + 1 + rng.usize_below(14)) % 15;
                }
                8 => {
                    name = "use_constant";
                    sf.use_constant = !sf.use_constant;
                }
                9 => {
                    name = "use_fixed";
                    sf.use_fixed = !sf.use_fixed;
                }
                10 => {
                    name = "use_lpc";
                    sf.use_lpc = !sf.use_lpc;
                }
                11 => {
                    name = "stereo_coding.use_midside";
                    other.stereo_coding.use_midside = !other.stereo_coding.use_midside;
                }
                12 => {
                    name = "stereo_coding.use_leftside";
                    other.stereo_coding.use_leftside = !other.stereo_coding.use_leftside;
                }
                _ => {
                    name = "stereo_coding.use_rightside";
                    other.stereo_coding.use_rightside = !other.stereo_coding.use_rightside;
                }
            }
        }
        let mk = |cfg: &config::Encoder| Case { audio: Arc::clone(&a), cfg: cfg.clone(), block, mode: FillMode::Int, hint: true };
        // stream level, then frame level (the frame-level entry point shares the per-thread state)
        let (first, second) = if idx % 3 == 2 { (Call::Frame(mk(&base), 0), Call::Frame(mk(&other), 0)) } else { (Call::Stream(mk(&base)), Call::Stream(mk(&other))) };
        let r1 = first.exec();
        let got = second.exec();
        let want = fresh_result(&cache, &second);
        out.evaluations += 1;
        out.count(&format!("oneknob_{}", name.replace([' ', '(', ')'], "")));
        if r1 != got {
            // only pairs whose two results really differ can show a stale answer
            out.distinct.insert(prng::hash_str(&format!("{name}/{}/{}", gen::describe_config(&base), a.recipe)) ^ prng::hash_i32s(&a.samples));
            out.count("oneknob_pairs_with_different_results");
        }
        if got != *want {
            out.violation(if idx % 3 == 2 { "C10|history-dependent|frame" } else { "C10|history-dependent|stream" }, format!("the same block encoded under a configuration that differs only in `{name}` right after the other one on the same thread gives different bytes than alone on a fresh thread"), rpj(ctx, "oneknob", idx, json!({"knob": name, "first": gen::describe_config(&base), "second": gen::describe_config(&other), "signal": a.recipe, "channels": channels, "bps": bps, "block": block})));
        }
    });
    // many distinct block lengths (and window parameters) on one thread: per-thread caches keyed
    // by length grow, get evicted or collide; lengths decrease, increase or shuffle
    let n = ctx.tier.pick(12, 300);
    run_cases(ctx, "manylengths", n, &mut out, |idx, out| {
        let mut rng = Rng::for_case(ctx.seed, "C10.manylengths", idx);
        let count = 70 + rng.usize_below(60);
        let base = 64 + rng.usize_below(200);
        let mut lens: Vec<usize> = (0..count).map(|k| base + k * (1 + rng.usize_below(3))).collect();
        match idx % 3 {
            0 => lens.reverse(),
            1 => {}
            _ => {
                for i in (1..lens.len()).rev() {
                    lens.swap(i, rng.usize_below(i + 1));
                }
            }
        }
        let bps = *rng.pick(&[16usize, 24, 8]);
        let maxlen = *lens.iter().max().unwrap();
        let a = gen::gen_audio_family(&mut rng, 1, bps, 44100, maxlen, "sine_noise");
        let alphas: [f32; 3] = [0.4, 0.5, 0.1];
        for (i, l) in lens.iter().enumerate() {
            let mut cfg = config::Encoder::default();
            cfg.multithread = false;
            cfg.block_size = 4096;
            cfg.subframe_coding.qlpc.window = if i % 7 == 3 { Window::Rectangle } else { Window::Tukey { alpha: alphas[i % 3] } };
            let case = Case { audio: Arc::new(Audio { channels: 1, bps, rate: 44100, samples: a.samples[..*l].to_vec(), recipe: format!("sine_noise[..{l}]") }), cfg, block: 4096, mode: FillMode::Int, hint: true };
            let call = Call::Stream(case);
            let got = call.exec();
            let want = fresh_result(&cache, &call);
            out.evaluations += 1;
            if got != *want {
                out.violation(
                    "C10|history-dependent|stream",
                    format!("call #{i} of {count} single-block streams of distinct lengths ({:?}..): in-history {:?} vs fresh {:?}", &lens[..4], got.as_ref().map(Vec::len).map_err(|e| e.chars().take(120).collect::<String>()), want.as_ref().as_ref().map(Vec::len).map_err(|e| e.chars().take(60).collect::<String>())),
                    rpj(ctx, "manylengths", idx, json!({"lengths": lens, "failing_call_index": i})),
                );
                break;
            }
        }
        out.distinct.insert(prng::hash_str(&format!("{lens:?}")));
    });
    let fin = Finish {
        level: "exploration",
        rule: "each history (5-40 calls drawn from a pool of 3-6 related cases that differ in block size incl. shrinking/growing, channel count, width, LPC order/precision, Rice limit, window incl. alphas closer than 2^-16; calls = stream encode->ByteSink, stream encode->MemSink<u64>, frame-level encode, encode->parse->re-serialise; single- and multi-thread) runs call by call on ONE long-lived thread and every result must equal the same call executed alone on a freshly spawned thread (fresh thread-locals); 'pairs' = targeted two-call histories for the window cache; 'manylengths' = 70-130 single-block streams of distinct lengths (decreasing / increasing / shuffled, several windows) on one thread; evaluations = calls compared; distinct by call sequence",
        assumptions: vec!["a freshly spawned OS thread has freshly initialised thread-local buffers".into()],
        exhaustive: None,
        floors: vec![],
        extra: json!({}),
    };
    finish(ctx, out, fin)
}

/// Miri/sanitizer-sized C10: histories over a pool of tiny cases (32..64-sample blocks).
pub fn mini_c10(ctx: &Ctx, scale: u64, out: &mut Outcome) {
    let cache: FreshCache = Mutex::new(HashMap::new());
    for h in 0..scale {
        let mut rng = Rng::for_case(ctx.seed, "mini.C10", h);
        let alphas: [f32; 4] = [0.0, 1e-6, 0.5, 0.5 + 1.0 / 131072.0];
        let mut pool = vec![];
        for i in 0..3 {
            let bps = *rng.pick(&gen::WIDTHS);
            let channels = *rng.pick(&[1usize, 2]);
            let block = *rng.pick(&[64usize, 32, 33, 48]);
            let len = block + rng.usize_below(block);
            let fam = if i % 2 == 0 { "noise_full" } else { "tiny_noise" };
            let a = gen::gen_audio_family(&mut rng, channels, bps, 44100, len, fam);
            let mut cfg = gen::gen_config(&mut rng, &ConfigOpts { multithread: Some(false), min_max_parameter: 4, no_experimental: false });
            cfg.subframe_coding.qlpc.lpc_order = cfg.subframe_coding.qlpc.lpc_order.min(6);
            cfg.subframe_coding.qlpc.window = Window::Tukey { alpha: *rng.pick(&alphas) };
            cfg.block_size = block;
            pool.push(Case { audio: Arc::new(a), cfg, block, mode: if rng.flip() { FillMode::Int } else { FillMode::Bytes }, hint: rng.flip() });
        }
        for i in 0..5 {
            let c = rng.pick(&pool).clone();
            let call = match rng.usize_below(6) {
                5 => Call::FailedWrites(rng.next_u64()),
                0 => Call::StreamU64(c),
                1 => Call::Frame(c, rng.usize_below(2)),
                2 => Call::Parse(c),
                _ => Call::Stream(c),
            };
            let got = call.exec();
            let want = fresh_result(&cache, &call);
            out.evaluations += 1;
            if got != *want {
                out.violation("C10|history-dependent|mini", format!("call #{i} of mini history {h} differs from the same call on a fresh thread: {}", call.describe()), json!({}));
                break;
            }
        }
    }
}
