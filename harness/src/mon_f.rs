//! C20: emitted bytes do not depend on optional cargo features.

use crate::common::{finish, Ctx, Finish, Outcome};
use crate::digest_corpus;
use crate::prng;
use serde_json::json;
use std::process::Command;

const VARIANTS: [(&str, &str); 4] = [
    ("none", ""),
    ("default", "f_default"),
    ("decode", "f_default,f_decode"),
    ("exp", "f_default,f_decode,f_experimental"),
];

fn build(name: &str, features: &str) -> Result<String, String> {
    let root = crate::common::verif_dir();
    let target = format!("{root}/target/feat-{name}");
    let mut cmd = Command::new("cargo");
    cmd.current_dir(format!("{root}/harness-digest"))
        .env("CARGO_NET_OFFLINE", "true")
        .env("RUSTFLAGS", "--cfg flacenc_verif")
        .args(["build", "--offline", "--release", "--no-default-features", "--target-dir", &target]);
    if !features.is_empty() {
        cmd.args(["--features", features]);
    }
    let out = cmd.output().map_err(|e| format!("cannot run cargo: {e}"))?;
    if !out.status.success() {
        return Err(format!("build of variant {name} failed: {}", String::from_utf8_lossy(&out.stderr).lines().filter(|l| l.starts_with("error")).take(5).collect::<Vec<_>>().join(" | ")));
    }
    Ok(format!("{target}/release/fvdigest"))
}

pub fn run_c20(ctx: &Ctx) -> i32 {
    let mut out = Outcome::default();
    let n = ctx.tier.pick(300u64, 3000u64);
    // build the four variants in parallel
    let bins: Vec<Result<String, String>> = std::thread::scope(|s| {
        let hs: Vec<_> = VARIANTS.iter().map(|(name, f)| s.spawn(move || build(name, f))).collect();
        hs.into_iter().map(|h| h.join().unwrap_or(Err("build thread died".into()))).collect()
    });
    let mut listings: Vec<(String, Vec<String>, String)> = vec![];
    for ((name, _), b) in VARIANTS.iter().zip(bins) {
        match b {
            Ok(bin) => {
                let o = Command::new(&bin).args([ctx.seed.to_string(), n.to_string()]).output();
                match o {
                    Ok(o) if o.status.success() => {
                        let text = String::from_utf8_lossy(&o.stdout).to_string();
                        let mut lines: Vec<String> = text.lines().map(str::to_string).collect();
                        let feats = if !lines.is_empty() && lines[0].starts_with('#') { lines.remove(0) } else { String::new() };
                        listings.push((name.to_string(), lines, feats));
                    }
                    Ok(o) => out.violation(format!("C20|variant-crashed|{name}"), format!("fvdigest({name}) exited with {:?}: {}", o.status, String::from_utf8_lossy(&o.stderr).lines().last().unwrap_or("")), json!({"variant": name})),
                    Err(e) => out.inconclusive.push(format!("cannot run fvdigest({name}): {e}")),
                }
            }
            Err(e) => out.inconclusive.push(e),
        }
    }
    // own computation (harness build = default + decode, hooks on)
    let own: Vec<String> = (0..n).map(|i| digest_corpus::digest_line(ctx.seed, i)).collect();
    listings.push(("harness(default+decode)".into(), own, format!("# features: {}", flacenc::constant::build_info::FEATURES)));
    if listings.len() >= 2 {
        let (ref_name, reference, _) = listings[0].clone();
        for (i, line) in reference.iter().enumerate() {
            out.evaluations += 1;
            if !line.contains("bytes ") {
                out.violation("C20|corpus-case-failed", format!("variant {ref_name}: {line}"), json!({"index": i}));
                continue;
            }
            if line.contains(" len 0 ") {
                out.count("empty_inputs");
            } else {
                out.distinct.insert(prng::hash_str(line));
            }
            for (name, l, _) in listings.iter().skip(1) {
                let result = |s: &str| s.rsplit(" => ").next().unwrap_or("").to_string();
                match l.get(i) {
                    Some(x) if result(x) == result(line) => {}
                    other => out.violation(
                        format!("C20|bytes-depend-on-features|{ref_name}-vs-{}", name.split('(').next().unwrap_or(name)),
                        format!("case {i}: [{ref_name}] {line}  !=  [{name}] {}", other.cloned().unwrap_or_else(|| "<missing>".into())),
                        json!({"monitor": "C20", "sub": "corpus", "index": i, "seed": ctx.seed, "tier": ctx.tier.name(), "case": line}),
                    ),
                }
            }
        }
        for l in reference.iter().take(3) {
            out.sample(json!({"corpus_line": l}));
        }
    }
    let feats: Vec<String> = listings.iter().map(|(n, _, f)| format!("{n}: {f}")).collect();
    let fin = Finish {
        level: "exploration",
        rule: "a digest binary that depends on flacenc only (configuration built in code) is built with --no-default-features, default, default+decode and default+decode+experimental; each prints one hash per (input, configuration) of a fixed corpus derived from VERIF_SEED (all widths, 1/2/5/8 channels, signal families, boundary configurations without experimental options, multithread true and false, integer and byte fill); all listings, and the harness's own computation, must be identical line by line; evaluations = corpus cases; distinct = distinct non-empty cases",
        assumptions: vec!["only the four feature sets of the project's own CI matrix are built".into()],
        exhaustive: Some(false),
        floors: vec![("feature-set listings compared".into(), listings.len() as u64, 5)],
        extra: json!({"variants": feats}),
    };
    finish(ctx, out, fin)
}
