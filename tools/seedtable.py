#!/usr/bin/env python3
"""Regenerates the table of DESIGN.md section 7 from seeded/*/meta.json and detection.*.json."""
import json, glob, os, re
rows = []
for d in sorted(glob.glob('/verif/seeded/C*/')):
    m = json.load(open(d + 'meta.json'))
    det = {}
    for f in glob.glob(d + 'detection.*.json'):
        x = json.load(open(f))
        det[x['tier']] = x
    q = det.get('quick')
    if q:
        sig = (q['violation_signatures'] or ['-'])[0]
        passes = ",".join(p for p, c in q.get('pass_exit_codes', {}).items() if c == 1)
        res = ("**fired** (`" + sig[:70] + "`" + (f"; also pass {passes}" if passes else "") + ")") if q['fired'] else f"silent (exit {q['exit_code']})"
    else:
        res = "not run yet"
    t = det.get('thorough')
    if t:
        res += "; thorough: " + ("fired" if t['fired'] else f"silent (exit {t['exit_code']})")
    rows.append(f"| {m['id']} | {m['site']} | {m['change'][:230]} | {m['needs_to_manifest'][:200]} | {res} |")
table = "| seed | site | change | needs | `./check <property> quick` with the change applied to /repo |\n|---|---|---|---|---|\n" + "\n".join(rows) + "\n"
p = '/verif/DESIGN.md'
s = open(p).read()
a, b = "<!-- SEEDTABLE-BEGIN -->", "<!-- SEEDTABLE-END -->"
if a in s:
    s = s[:s.index(a) + len(a)] + "\n" + table + s[s.index(b):]
    open(p, 'w').write(s)
    print("table updated:", len(rows), "rows")
else:
    print(table)
