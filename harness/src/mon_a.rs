//! Monitors riding on stream observation: C01, C02 (stream part), C03, C04, C09, C13, C15.

use crate::common::{finish, run_cases, Ctx, Finish, Outcome};
use crate::enc;
use crate::gen::{self, Audio, ConfigOpts, FillMode, TestSource};
use crate::mon_stream::*;
use crate::prng::Rng;
use crate::refdec;
use crate::sched;
use flacenc::config;
use serde_json::json;
use std::num::NonZeroUsize;
use md5::Digest as _;
use std::sync::Arc;

type Oracle = fn(&Ctx, &str, u64, &Case, &Observed, &mut Outcome);
type CaseGen = Box<dyn Fn(&mut Rng) -> Case + Sync>;

pub struct Sub {
    pub name: &'static str,
    pub n: u64,
    pub gen: CaseGen,
}

/// Runs the subs, applying `oracles` to every observed stream.
pub fn drive(ctx: &Ctx, subs: Vec<Sub>, oracles: &[Oracle], out: &mut Outcome, nontrivial: fn(&Case, &Observed) -> bool) {
    sched::install();
    for sub in subs {
        let tag = format!("{}.{}", ctx.prop, sub.name);
        run_cases(ctx, sub.name, sub.n, out, |idx, out| {
            let mut rng = Rng::for_case(ctx.seed, &tag, idx);
            let case = (sub.gen)(&mut rng);
            // every sixth case is observed right after failed writes on this thread
            if idx % 6 == 5 {
                crate::poison::failing_writes(&mut Rng::for_case(ctx.seed, "poison", idx));
                out.count("cases_observed_after_failed_writes_on_the_thread");
            }
            match observe(&case) {
                Ok(obs) => {
                    out.evaluations += 1;
                    out.count(&format!("sub_{}", sub.name));
                    if nontrivial(&case, &obs) {
                        out.distinct.insert(case.key());
                    }
                    note_coverage(&case, &obs, out);
                    for o in oracles {
                        o(ctx, sub.name, idx, &case, &obs, out);
                    }
                    if idx < 2 {
                        let mut d = case.describe();
                        d["sub"] = json!(sub.name);
                        d["stream_bytes"] = json!(obs.bytes.len());
                        d["frames"] = json!(obs.rep.frames.len());
                        d["subframe_kinds_first_frame"] = json!(obs.rep.frames.first().map(|f| f.subframes.iter().map(|s| format!("{:?}", s.kind)).collect::<Vec<_>>()));
                        out.sample(d);
                    }
                }
                Err(e) => report_obs_err(ctx, sub.name, idx, &case, &e, out),
            }
        });
    }
}

fn has_frames(_c: &Case, o: &Observed) -> bool {
    !o.rep.frames.is_empty()
}

pub fn lim(max_samples: usize) -> Limits {
    Limits {
        max_samples,
        ..Limits::default()
    }
}

/// Stereo with a forced anti-correlation mode and forced stereo switches.
pub fn side_case(rng: &mut Rng, max_samples: usize) -> Case {
    let bps = *rng.pick(&gen::WIDTHS);
    let block = gen::pick_block_size(rng, (max_samples / 2).max(64));
    let len = gen::pick_len(rng, block, 2).min(max_samples / 2).max(1);
    let fam = *rng.pick(&["noise_full", "sine", "alt2", "dc_min", "dc_max", "laplace", "sine_clipped", "sawtooth"]);
    let l = gen::gen_channel(rng, fam, bps, len);
    let lo = gen::smin(bps) as i64;
    let hi = gen::smax(bps) as i64;
    let mode = rng.usize_below(4);
    let (l, r): (Vec<i32>, Vec<i32>) = match mode {
        0 => (l.clone(), l.iter().map(|x| (-(*x as i64)).clamp(lo, hi) as i32).collect()),
        1 => (l.clone(), l.iter().map(|x| (-(*x as i64) - 1).clamp(lo, hi) as i32).collect()),
        2 => (vec![hi as i32; len], vec![lo as i32; len]),
        _ => (vec![lo as i32; len], l.iter().map(|x| if *x >= 0 { hi as i32 } else { lo as i32 }).collect()),
    };
    let mut samples = vec![0i32; len * 2];
    for t in 0..len {
        samples[2 * t] = l[t];
        samples[2 * t + 1] = r[t];
    }
    let mut cfg = gen::gen_config(rng, &ConfigOpts::default());
    let bits = rng.usize_below(8);
    cfg.stereo_coding.use_leftside = bits & 1 != 0;
    cfg.stereo_coding.use_rightside = bits & 2 != 0;
    cfg.stereo_coding.use_midside = bits & 4 != 0;
    cfg.block_size = block;
    Case {
        audio: Arc::new(Audio {
            channels: 2,
            bps,
            rate: gen::pick_rate(rng),
            samples,
            recipe: format!("anti{mode}({fam})"),
        }),
        cfg,
        block,
        mode: if rng.flip() { FillMode::Int } else { FillMode::Bytes },
        hint: rng.flip(),
    }
}

/// 20/24-bit loud content with LPC order 24 / precision 15 (aims at the 64-bit residual path).
pub fn lpc64_case(rng: &mut Rng, max_samples: usize) -> Case {
    let bps = *rng.pick(&[24usize, 24, 20]);
    let channels = *rng.pick(&[1usize, 2]);
    let block = *rng.pick(&[64usize, 128, 256, 1024, 4096]);
    let block = block.min(max_samples / channels).max(64);
    let len = (block * rng.urange(1, 2) + rng.usize_below(40)).min(max_samples / channels);
    let mut chans = vec![];
    let mut recipe = String::new();
    for _ in 0..channels {
        let fam = *rng.pick(&["noise_full", "alt2", "alt3", "sine_clipped", "sine_loud_noise", "step", "impulse_mid", "integrated"]);
        recipe.push_str(fam);
        recipe.push('+');
        chans.push(gen::gen_channel(rng, fam, bps, len));
    }
    let mut samples = vec![0i32; len * channels];
    for (ch, c) in chans.iter().enumerate() {
        for (t, x) in c.iter().enumerate() {
            samples[t * channels + ch] = *x;
        }
    }
    let mut cfg = gen::gen_config(rng, &ConfigOpts::default());
    cfg.subframe_coding.use_lpc = true;
    cfg.subframe_coding.qlpc.lpc_order = *rng.pick(&[24usize, 24, 16, 8]);
    cfg.subframe_coding.qlpc.quant_precision = *rng.pick(&[15usize, 15, 14, 12]);
    cfg.subframe_coding.prc.max_parameter = 14;
    cfg.block_size = block;
    Case {
        audio: Arc::new(Audio {
            channels,
            bps,
            rate: 48000,
            samples,
            recipe: format!("lpc64({recipe})"),
        }),
        cfg,
        block,
        mode: FillMode::Int,
        hint: true,
    }
}

/// Streams whose final block is shorter than 64 / 16 samples; every small residue.
pub fn short_tail_case(rng: &mut Rng, idx: u64) -> Case {
    let mut c = gen_case(rng, &lim(6000));
    let block = *rng.pick(&[32usize, 33, 64, 100, 192, 256, 1000]);
    let full = (idx % 3) as usize;
    let r = 1 + ((idx / 3) % 70) as usize;
    let len = full * block + r % block;
    let ch = c.audio.channels;
    let a = gen::gen_audio(rng, ch, c.audio.bps, c.audio.rate, len);
    c.audio = Arc::new(a);
    c.block = block;
    c.cfg.block_size = block;
    c
}

/// Loud/heavy-tailed content with restricted Rice parameters (size guarded by the caller).
pub fn loud_case(rng: &mut Rng, max_samples: usize) -> Case {
    let bps = *rng.pick(&[16usize, 20, 24, 24]);
    let channels = *rng.pick(&[1usize, 2, 2, 3]);
    let block = *rng.pick(&[64usize, 192, 256, 576, 1024, 4096, 4608]);
    let block = block.min(max_samples / channels).max(64);
    let len = block * rng.urange(1, 2);
    let mut chans = vec![];
    let mut recipe = String::new();
    for _ in 0..channels {
        let fam = *rng.pick(&["noise_full", "laplace", "alt2", "alt7", "sine_loud_noise", "integrated", "loud_then_quiet", "sine_clipped", "impulse_mid", "step", "alt_level", "alt_level"]);
        recipe.push_str(fam);
        recipe.push('+');
        chans.push(gen::gen_channel(rng, fam, bps, len));
    }
    let mut samples = vec![0i32; len * channels];
    for (ch, c) in chans.iter().enumerate() {
        for (t, x) in c.iter().enumerate() {
            samples[t * channels + ch] = *x;
        }
    }
    let mut cfg = gen::gen_config(rng, &ConfigOpts { multithread: Some(false), min_max_parameter: 0, no_experimental: false });
    cfg.subframe_coding.prc.max_parameter = *rng.pick(&[0usize, 1, 2, 4, 8, 14, 14]);
    cfg.subframe_coding.fixed.order_sel = match rng.usize_below(4) {
        0 => config::OrderSel::BitCount,
        1 => config::OrderSel::ApproxEnt { partitions: 1 },
        2 => config::OrderSel::ApproxEnt { partitions: 64 },
        _ => config::OrderSel::ApproxEnt { partitions: 16 },
    };
    match rng.usize_below(4) {
        0 => {
            cfg.subframe_coding.use_fixed = true;
            cfg.subframe_coding.use_lpc = false;
        }
        1 => {
            cfg.subframe_coding.use_fixed = false;
            cfg.subframe_coding.use_lpc = true;
        }
        _ => {
            cfg.subframe_coding.use_fixed = true;
            cfg.subframe_coding.use_lpc = true;
        }
    }
    cfg.block_size = block;
    Case {
        audio: Arc::new(Audio {
            channels,
            bps,
            rate: 44100,
            samples,
            recipe: format!("loud({recipe})"),
        }),
        cfg,
        block,
        mode: FillMode::Int,
        hint: true,
    }
}

/// Prediction wins AND residuals stay large: loud tone + graded noise, non-stationary.
pub fn rice_case(rng: &mut Rng, max_samples: usize) -> Case {
    let bps = *rng.pick(&[8usize, 12, 16, 20, 24, 24, 20]);
    let channels = *rng.pick(&[1usize, 1, 2]);
    let block = *rng.pick(&[64usize, 128, 192, 256, 512, 1024, 2048, 4096, 4608, 8192, 16384, 1000, 4095, 32767]);
    let block = block.min(max_samples / channels).max(64);
    let len = block + if rng.chance(1, 3) { rng.usize_below(block) } else { 0 };
    let full = gen::smax(bps) as f64;
    let mut samples = vec![0i32; len * channels];
    let mut recipe = String::new();
    for ch in 0..channels {
        // tone amplitude large, noise amplitude graded 2^-12 .. 2^-1 of full scale, optionally
        // switching between two noise levels in the block (drives high partition orders)
        let tone = full * (0.2 + 0.5 * rng.f64());
        let period = 8.0 + 300.0 * rng.f64();
        let e1 = rng.usize_below(12) as i32 + 1;
        let e2 = if rng.flip() { rng.usize_below(12) as i32 + 1 } else { e1 };
        let seglen = *rng.pick(&[64usize, 128, 256, 1024, usize::MAX]);
        let heavy = rng.chance(1, 3);
        recipe.push_str(&format!("tone+noise(2^-{e1}/2^-{e2},seg={seglen},heavy={heavy})"));
        for t in 0..len {
            let level = if (t / seglen.min(len.max(1))) % 2 == 0 { e1 } else { e2 };
            let na = full / f64::from(1u32 << level);
            let noise = if heavy { na * 0.3 * rng.laplace() } else { na * rng.gauss() };
            let s = tone * (6.283 * t as f64 / period).sin() + noise;
            samples[t * channels + ch] = s.round().clamp(gen::smin(bps) as f64, full) as i32;
        }
    }
    let mut cfg = gen::gen_config(rng, &ConfigOpts { multithread: Some(false), min_max_parameter: 0, no_experimental: false });
    cfg.subframe_coding.prc.max_parameter = rng.urange(0, 14);
    if rng.chance(2, 3) {
        cfg.subframe_coding.prc.max_parameter = cfg.subframe_coding.prc.max_parameter.max(bps.saturating_sub(8).min(14));
    }
    cfg.subframe_coding.use_fixed = true;
    cfg.subframe_coding.use_lpc = rng.chance(2, 3);
    cfg.subframe_coding.use_constant = true;
    cfg.block_size = block;
    Case {
        audio: Arc::new(Audio {
            channels,
            bps,
            rate: 44100,
            samples,
            recipe,
        }),
        cfg,
        block,
        mode: FillMode::Int,
        hint: true,
    }
}

/// A smooth, well-predicted block (fixed/LPC wins) with one short loud burst near the Nyquist
/// frequency: the partition holding the burst wants a Rice parameter far above the rest - and,
/// for narrow widths with a fixed predictor of order k, above the sample width itself.
pub fn burst_case(rng: &mut Rng) -> Case {
    let bps = *rng.pick(&[8usize, 8, 12, 12, 16, 20]);
    let block = *rng.pick(&[256usize, 512, 1024, 4096, 4096, 1152]);
    let len = block + if rng.chance(1, 4) { rng.usize_below(block) } else { 0 };
    let full = gen::smax(bps) as f64;
    let amp = full * (0.2 + 0.6 * rng.f64());
    let period = 40.0 + 400.0 * rng.f64();
    let noise = full * 0.004 * rng.f64();
    let mut samples = vec![0i32; len];
    // base: a smooth sine (2 of 3) or (near-)digital silence (1 of 3: all zero, or rare +-1)
    let silent_base = rng.chance(1, 3);
    for (t, x) in samples.iter_mut().enumerate() {
        *x = if silent_base {
            if rng.chance(1, 40) { rng.range(-1, 1) as i32 } else { 0 }
        } else {
            (amp * (6.283 * t as f64 / period).sin() + noise * rng.gauss()).round().clamp(gen::smin(bps) as f64, full) as i32
        };
    }
    for _ in 0..1 + rng.usize_below(2) {
        let blen = *rng.pick(&[1usize, 16, 32, 64, 64, 128, 200]);
        let start = rng.usize_below(len.saturating_sub(blen).max(1));
        // on a silent base the burst is low-level (a few LSBs) or a single moderate click; on a
        // sine it is full scale near the Nyquist frequency
        let kind = if silent_base { 3 + rng.usize_below(2) } else { rng.usize_below(3) };
        let level = 1 + rng.usize_below(12) as i64;
        let click = rng.range(30, (len as i64 / 2).max(31)).min(gen::smax(bps) as i64);
        for t in start..(start + blen).min(len) {
            samples[t] = match kind {
                0 => if t % 2 == 0 { gen::smax(bps) } else { gen::smin(bps) },
                1 => if (t / 2) % 2 == 0 { gen::smax(bps) } else { gen::smin(bps) },
                2 => rng.range(gen::smin(bps) as i64, gen::smax(bps) as i64) as i32,
                3 => rng.range(-level, level) as i32,
                _ => if t == start { click as i32 } else { samples[t] },
            };
        }
    }
    let mut cfg = gen::gen_config(rng, &ConfigOpts { multithread: Some(false), min_max_parameter: 0, no_experimental: false });
    cfg.subframe_coding.prc.max_parameter = 14;
    cfg.subframe_coding.use_fixed = true;
    cfg.subframe_coding.fixed.max_order = 4;
    cfg.subframe_coding.use_lpc = rng.chance(1, 3);
    if rng.chance(2, 3) {
        cfg.subframe_coding.fixed.order_sel = config::OrderSel::BitCount;
    }
    cfg.block_size = block;
    Case { audio: Arc::new(Audio { channels: 1, bps, rate: 44100, samples, recipe: if silent_base { "near_silence+low_burst_or_click".into() } else { "sine+nyquist_burst".into() } }), cfg, block, mode: FillMode::Int, hint: true }
}

pub fn par_case(rng: &mut Rng, max_samples: usize) -> Case {
    let mut c = gen_case(rng, &Limits { max_samples, max_blocks: 12, max_block_size: 512, ..Limits::default() });
    c.cfg.multithread = true;
    c.cfg.workers = NonZeroUsize::new(*rng.pick(&[1usize, 2, 3, 4, 8, 16]));
    c
}

/// More than 1024 (often more than 2048) frames: 2- and 3-byte frame numbers, STREAMINFO extremes
/// set by late frames (amplitude ramps up or down over the stream), long runs of the hash queue.
/// Frames whose length sits on / next to a boundary of the frame header's block-size code classes:
/// 192, 576*2^n (n = 0..=5: 9216 and 18432 are multiples that are NOT in the coded family),
/// 256*2^n, the powers of two below 256, 192*2^n, and the neighbours +-1 of each. The length is
/// reached either as the block size (full frames) or as a short final block of a larger block size.
pub fn sizeclass_case(rng: &mut Rng) -> Case {
    const BASE: [usize; 30] = [16, 32, 64, 96, 128, 144, 192, 256, 288, 384, 512, 576, 768, 1024, 1152, 1536, 2048, 2304, 3072, 4096, 4608, 6144, 8192, 9216, 12288, 16384, 18432, 24576, 32767, 255];
    let mut len = *rng.pick(&BASE);
    match rng.usize_below(6) {
        0 => len = (len + 1).min(32767),
        1 => len = len.saturating_sub(1).max(1),
        _ => {}
    }
    let as_tail = len < 32 || rng.chance(1, 3);
    let (block, total) = if as_tail {
        let block = (len + 1 + rng.usize_below(300)).clamp(32, 32767);
        if block <= len {
            (len, len)
        } else {
            (block, if rng.flip() { len } else { block + len })
        }
    } else {
        (len, len * (1 + rng.usize_below(2)) + if rng.chance(1, 4) { 1 + rng.usize_below(len.min(40)) } else { 0 })
    };
    let channels = *rng.pick(&[1usize, 1, 2, 2, 3]);
    let bps = *rng.pick(&gen::WIDTHS);
    let amp = (gen::smax(bps) as f64) * *rng.pick(&[0.0, 0.001, 0.05, 0.6]);
    let f = 0.01 + rng.f64() * 0.2;
    let mut samples = vec![0i32; total * channels];
    for t in 0..total {
        for c in 0..channels {
            samples[t * channels + c] = (amp * ((t as f64 * f + c as f64).sin() * 0.8 + (rng.f64() - 0.5) * 0.2)) as i32;
        }
    }
    let mut cfg = gen::gen_config(rng, &ConfigOpts { multithread: None, min_max_parameter: 6, no_experimental: false });
    cfg.block_size = block;
    cfg.subframe_coding.qlpc.lpc_order = cfg.subframe_coding.qlpc.lpc_order.min(8);
    Case {
        audio: Arc::new(Audio { channels, bps, rate: *rng.pick(&[44100usize, 48000, 8000, 96000, 12345]), samples, recipe: format!("sizeclass len={len} {}", if as_tail { "as final block" } else { "as block size" }) }),
        cfg,
        block,
        mode: if rng.flip() { FillMode::Int } else { FillMode::Bytes },
        hint: rng.flip(),
    }
}

pub fn manyframes_case(rng: &mut Rng) -> Case {
    let block = *rng.pick(&[32usize, 32, 33, 48, 64]);
    // one case in twenty crosses 2^16 frames (4-byte coded frame numbers)
    let huge = rng.chance(1, 20);
    let frames = if huge { 65_530 + rng.usize_below(80) } else { *rng.pick(&[1030usize, 1100, 1500, 2047, 2048, 2050, 2600]) };
    let block = if huge { 32 } else { block };
    let channels = if huge { 1 } else { *rng.pick(&[1usize, 1, 2]) };
    let bps = *rng.pick(&gen::WIDTHS);
    let len = frames * block + if rng.flip() { rng.usize_below(block) } else { 0 };
    let up = rng.flip();
    let full = gen::smax(bps) as f64;
    let mut samples = vec![0i32; len * channels];
    for t in 0..len {
        let pos = t as f64 / len as f64;
        let env = if up { pos } else { 1.0 - pos };
        for c in 0..channels {
            samples[t * channels + c] = (full * env * env * (rng.f64() * 2.0 - 1.0)) as i32;
        }
    }
    let mut cfg = gen::gen_config(rng, &ConfigOpts { multithread: None, min_max_parameter: 8, no_experimental: false });
    cfg.block_size = block;
    cfg.subframe_coding.qlpc.lpc_order = cfg.subframe_coding.qlpc.lpc_order.min(8);
    if huge {
        cfg.subframe_coding.use_lpc = false;
    }
    Case {
        audio: Arc::new(Audio { channels, bps, rate: 44100, samples, recipe: format!("ramp_{}_noise {frames} frames", if up { "up" } else { "down" }) }),
        cfg,
        block,
        mode: if rng.flip() { FillMode::Int } else { FillMode::Bytes },
        hint: rng.flip(),
    }
}

/// Blocks whose raw bytes exceed 256 KiB .. 768 KiB (many channels x large block sizes), both
/// thread modes: per-block byte buffers, hash-thread messages and frame sizes beyond 2^16/2^18.
pub fn bigblock_case(rng: &mut Rng) -> Case {
    let channels = *rng.pick(&[5usize, 6, 7, 8, 8, 3]);
    let bps = *rng.pick(&[16usize, 24, 24, 20, 12]);
    let block = *rng.pick(&[10_923usize, 16_384, 20_000, 32_767, 32_767, 21_846]);
    let len = block * rng.urange(1, 2) + if rng.flip() { rng.usize_below(block) } else { 0 };
    let rate = gen::pick_rate(rng);
    let mut a = gen::gen_audio(rng, channels, bps, rate, len);
    a.recipe = format!("bigblock:{}", a.recipe);
    let mut cfg = gen::gen_config(rng, &ConfigOpts { multithread: None, min_max_parameter: 8, no_experimental: false });
    cfg.multithread = rng.flip();
    cfg.workers = NonZeroUsize::new(*rng.pick(&[1usize, 2, 4]));
    cfg.subframe_coding.qlpc.lpc_order = cfg.subframe_coding.qlpc.lpc_order.min(8);
    cfg.block_size = block;
    Case { audio: Arc::new(a), cfg, block, mode: if rng.flip() { FillMode::Int } else { FillMode::Bytes }, hint: rng.flip() }
}

pub fn std_subs(ctx: &Ctx, scale_q: u64, scale_t: u64) -> Vec<Sub> {
    let n = |q: u64, t: u64| ctx.tier.pick(q * scale_q * 3 / 100, t * scale_t * 4 / 100).max(1);
    let big = ctx.tier.pick(30_000, 120_000);
    vec![
        Sub { name: "mix", n: n(1600, 80_000), gen: Box::new(move |r| gen_case(r, &lim(big))) },
        Sub { name: "side", n: n(400, 15_000), gen: Box::new(|r| side_case(r, 8000)) },
        Sub { name: "lpc64", n: n(200, 8_000), gen: Box::new(|r| lpc64_case(r, 9000)) },
        Sub { name: "loud", n: n(300, 15_000), gen: Box::new(|r| loud_case(r, 9000)) },
        Sub { name: "rice", n: n(200, 10_000), gen: Box::new(|r| rice_case(r, 40_000)) },
        Sub { name: "par", n: n(300, 15_000), gen: Box::new(|r| par_case(r, 6000)) },
        Sub { name: "large", n: n(12, 300), gen: Box::new(|r| gen_case(r, &Limits { max_samples: 300_000, max_blocks: 2, ..Limits::default() })) },
        Sub { name: "manyframes", n: n(16, 300), gen: Box::new(manyframes_case) },
        Sub { name: "sizeclass", n: n(240, 6000), gen: Box::new(sizeclass_case) },
        Sub { name: "bigblock", n: n(10, 200), gen: Box::new(bigblock_case) },
    ]
}

/// Pipe-style sources: every k-th read returns fewer samples than asked for although input remains
/// (k = 2..=4). At least three blocks, so that a short read really happens mid-stream.
pub fn shortread_sub(ctx: &Ctx) -> Sub {
    let n = ctx.tier.pick(200, 6000);
    Sub {
        name: "shortread",
        n,
        gen: Box::new(|r| {
            let mut c = gen_case(r, &Limits { max_samples: 6000, max_blocks: 8, max_block_size: 512, ..Limits::default() });
            let need = c.block * 3 + 7;
            if c.audio.frames() < need {
                let mut a = (*c.audio).clone();
                let ch = a.channels;
                if a.samples.is_empty() {
                    a.samples = vec![1; ch];
                }
                while a.samples.len() < need * ch {
                    let ext = a.samples.clone();
                    a.samples.extend(ext);
                }
                a.samples.truncate(need * ch);
                c.audio = Arc::new(a);
            }
            c.mode = if r.flip() { FillMode::IntShort } else { FillMode::BytesShort };
            c.hint = r.flip();
            c
        }),
    }
}

pub fn short_sub(ctx: &Ctx) -> Sub {
    // index-driven: every residue 1..=70 x {0,1,2} full blocks
    let n = ctx.tier.pick(840, 12_600);
    Sub {
        name: "short_tail",
        n,
        gen: Box::new(|r| {
            let idx = r.next_u64() % 100_000;
            short_tail_case(r, idx)
        }),
    }
}

fn cov_extra() -> serde_json::Value {
    let cov = sched::cov_snapshot();
    json!({"hook_coverage": cov.iter().map(|(k, v)| (k.to_string(), json!({"hits": v.0, "max_a": v.1, "max_b": v.2}))).collect::<serde_json::Map<_, _>>()})
}

const ASSUME_REFDEC: &str = "refdec (the harness's own RFC 9639 decoder) is the reference; claxon is a second opinion; disagreement between the two is reported as inconclusive";

pub fn run_c01(ctx: &Ctx) -> i32 {
    let mut out = Outcome::default();
    let mut subs = std_subs(ctx, 100, 100);
    subs.push(short_sub(ctx));
    drive(ctx, subs, &[oracle_c01], &mut out, has_frames);
    // frame-level entry point: assemble frame by frame and decode
    let n = ctx.tier.pick(1500, 60_000);
    run_cases(ctx, "framewise", n, &mut out, |idx, out| {
        let mut rng = Rng::for_case(ctx.seed, "C01.framewise", idx);
        let case = gen_case(&mut rng, &lim(12_000));
        let Ok(v) = enc::verified(&case.cfg) else { return };
        match enc::encode_framewise(&v, &case.audio, case.mode, case.block) {
            Ok(stream) => match enc::to_bytes(&stream) {
                Ok(bytes) => {
                    let rep = refdec::decode_stream(&bytes);
                    let obs = Observed { stream, bytes, rep, delivered: case.audio.frames(), reads: 0 };
                    out.evaluations += 1;
                    out.count("sub_framewise");
                    if !obs.rep.frames.is_empty() {
                        out.distinct.insert(case.key() ^ 0x5555);
                    }
                    oracle_c01(ctx, "framewise", idx, &case, &obs, out);
                }
                Err(e) => report_obs_err(ctx, "framewise", idx, &case, &ObsErr::Ser(e, stream_placeholder()), out),
            },
            Err(e) => report_obs_err(ctx, "framewise", idx, &case, &ObsErr::Enc(e), out),
        }
    });
    let err64 = sched::cov_count("cov.lpc.err64");
    let side_frames: u64 = ["assign_LeftSide", "assign_SideRight", "assign_MidSide"].iter().map(|k| out.stats.get(*k).copied().unwrap_or(0)).sum();
    let short = out.stats.get("frames_shorter_than_16").copied().unwrap_or(0);
    let fin = Finish {
        level: "exploration",
        rule: "cases generated from VERIF_SEED (signal family x width x channels x block size x length residue x configuration x fill mode x thread mode); non-trivial = stream with at least one frame; distinct by hash of (format, pcm, block size, configuration)",
        assumptions: vec![ASSUME_REFDEC.into()],
        exhaustive: None,
        floors: vec![
            ("runs through the 64-bit LPC residual path (hook cov.lpc.err64)".into(), err64, 1),
            ("frames using a side channel (width b+1)".into(), side_frames, 20),
            ("frames shorter than 16 samples".into(), short, 5),
        ],
        extra: cov_extra(),
    };
    finish(ctx, out, fin)
}

/// Generating source for streams longer than 2^32 samples (1 channel, 8 bit).
struct GiantSource {
    total: u64,
    pos: u64,
    hint: bool,
    salt: u64,
    md5: md5::Md5,
    reads: u64,
    bytes_mode: bool,
}

impl flacenc::source::Source for GiantSource {
    fn channels(&self) -> usize {
        1
    }
    fn bits_per_sample(&self) -> usize {
        8
    }
    fn sample_rate(&self) -> usize {
        8000
    }
    fn read_samples<F: flacenc::source::Fill>(&mut self, block_size: usize, dest: &mut F) -> Result<usize, flacenc::error::SourceError> {
        use md5::Digest;
        let n = (block_size as u64).min(self.total - self.pos) as usize;
        let value = (crate::prng::mix(self.salt ^ self.reads) & 0xFF) as u8 as i8;
        self.reads += 1;
        if self.bytes_mode {
            let block = vec![value as u8; n];
            dest.fill_le_bytes(&block, 1)?;
            self.md5.update(&block);
        } else {
            let block = vec![i32::from(value); n];
            dest.fill_interleaved(&block)?;
            self.md5.update(&vec![value as u8; n]);
        }
        self.pos += n as u64;
        Ok(n)
    }
    fn len_hint(&self) -> Option<usize> {
        self.hint.then_some(self.total as usize)
    }
}

pub fn stream_placeholder() -> flacenc::component::Stream {
    flacenc::component::Stream::new(8000, 1, 8).unwrap()
}

pub fn run_c03(ctx: &Ctx) -> i32 {
    let mut out = Outcome::default();
    let mut subs = std_subs(ctx, 60, 35);
    subs.push(short_sub(ctx));
    drive(ctx, subs, &[oracle_c03], &mut out, has_frames);
    // the four delivery variants of one input must state the same STREAMINFO
    let n = ctx.tier.pick(1200, 48_000);
    run_cases(ctx, "variants", n, &mut out, |idx, out| {
        let mut rng = Rng::for_case(ctx.seed, "C03.variants", idx);
        let mut case = gen_case(&mut rng, &Limits { max_samples: 8000, max_blocks: 8, max_block_size: 1024, ..Limits::default() });
        let mut infos = vec![];
        for (mt, mode, hint) in [(false, FillMode::Int, false), (false, FillMode::Bytes, true), (true, FillMode::Int, true), (true, FillMode::Bytes, false), (false, FillMode::BytesShort, false), (true, FillMode::IntShort, idx % 2 == 0), (true, FillMode::BytesShort, false), (true, FillMode::Mixed, idx % 2 == 1), (false, FillMode::Mixed, false)] {
            case.cfg.multithread = mt;
            case.cfg.workers = NonZeroUsize::new(1 + rng.usize_below(4));
            case.mode = mode;
            case.hint = hint;
            match observe(&case) {
                Ok(obs) => {
                    out.evaluations += 1;
                    oracle_c03(ctx, "variants", idx, &case, &obs, out);
                    infos.push((obs.rep.info.md5, obs.rep.info.total, mt, mode));
                }
                Err(e) => report_obs_err(ctx, "variants", idx, &case, &e, out),
            }
        }
        // and delivered by a source that chains inner sources: every second or third read first
        // hands over an empty block (the inner source that just ended), then the data
        for mt in [false, true] {
            case.cfg.multithread = mt;
            case.mode = if idx % 2 == 0 { FillMode::Int } else { FillMode::Bytes };
            case.hint = false;
            let Ok(v) = enc::verified(&case.cfg) else { continue };
            let mut src = TestSource::new(Arc::clone(&case.audio), case.mode, false);
            src.empty_fill_every = 2 + (idx % 2) as usize;
            match enc::encode_stream(&v, &mut src, case.block) {
                Ok(stream) => match enc::to_bytes(&stream) {
                    Ok(bytes) => {
                        let rep = refdec::decode_stream(&bytes);
                        let obs = Observed { stream, bytes, rep, delivered: src.delivered, reads: src.reads };
                        out.evaluations += 1;
                        out.count("variants_chained_source");
                        oracle_c03(ctx, "variants", idx, &case, &obs, out);
                        infos.push((obs.rep.info.md5, obs.rep.info.total, mt, case.mode));
                    }
                    Err(e) => report_obs_err(ctx, "variants", idx, &case, &ObsErr::Ser(e, stream_placeholder()), out),
                },
                Err(e) => report_obs_err(ctx, "variants", idx, &case, &ObsErr::Enc(e), out),
            }
        }
        // and by a packet-oriented source whose over-long offers are refused and retried
        for mt in [false, true] {
            case.cfg.multithread = mt;
            case.mode = if (idx / 2) % 2 == 0 { FillMode::Int } else { FillMode::Bytes };
            case.hint = idx % 3 == 0;
            let Ok(v) = enc::verified(&case.cfg) else { continue };
            let mut src = TestSource::new(Arc::clone(&case.audio), case.mode, case.hint);
            src.overoffer_every = 2 + (idx % 2) as usize;
            match enc::encode_stream(&v, &mut src, case.block) {
                Ok(stream) => match enc::to_bytes(&stream) {
                    Ok(bytes) => {
                        let rep = refdec::decode_stream(&bytes);
                        let obs = Observed { stream, bytes, rep, delivered: src.delivered, reads: src.reads };
                        out.evaluations += 1;
                        out.add("variants_overlong_offers_refused", src.overoffers_refused as u64);
                        out.add("variants_overlong_offers_accepted", src.overoffers_accepted as u64);
                        oracle_c03(ctx, "variants", idx, &case, &obs, out);
                        if src.overoffers_accepted == 0 {
                            infos.push((obs.rep.info.md5, obs.rep.info.total, mt, case.mode));
                        }
                    }
                    Err(e) => report_obs_err(ctx, "variants", idx, &case, &ObsErr::Ser(e, stream_placeholder()), out),
                },
                Err(e) => report_obs_err(ctx, "variants", idx, &case, &ObsErr::Enc(e), out),
            }
        }
        if infos.windows(2).any(|w| w[0].0 != w[1].0 || w[0].1 != w[1].1) {
            out.violation("C03|variants-differ", format!("MD5/total differ between delivery variants: {infos:?}"), json!({"monitor": "C03", "sub": "variants", "index": idx, "seed": ctx.seed, "tier": ctx.tier.name(), "case": case.describe()}));
        }
        if case.audio.frames() > 0 {
            out.distinct.insert(case.key());
        }
    });
    // multi-thread encodes whose MD5 helper thread lags behind: cheap blocks (the feeder is never
    // held up by the workers), the helper slowed down at the hook (or the feeder, so that the
    // helper idles), and block counts on both sides of the 16-slot queue between them - the input
    // may end while the queue is full, nearly full, or holds nothing but the stop marker
    let n = ctx.tier.pick(320, 12_000);
    for (pi, pol) in [crate::sched::Policy::SlowHasher, crate::sched::Policy::SlowFeeder].into_iter().enumerate() {
        crate::sched::perturb_only(Some(pol), ctx.seed);
        run_cases(ctx, "hashlag", n / 2, &mut out, |idx, out| {
            let mut rng = Rng::for_case(ctx.seed, "C03.hashlag", idx * 2 + pi as u64);
            let bps = *rng.pick(&gen::WIDTHS);
            let channels = *rng.pick(&[1usize, 2, 2, 3, 8]);
            let block = *rng.pick(&[32usize, 33, 48, 64]);
            // 1..=40 blocks, every count around the queue capacity and twice the capacity in turn
            let blocks = match idx % 4 {
                0 => 12 + (idx as usize / 4) % 10,
                1 => 28 + (idx as usize / 4) % 10,
                _ => 1 + rng.usize_below(40),
            };
            let len = blocks * block - if idx % 3 == 0 { rng.usize_below(block) } else { 0 };
            let mut samples = vec![0i32; len * channels];
            for b in 0..blocks {
                let v = rng.range(gen::smin(bps) as i64, gen::smax(bps) as i64) as i32;
                for t in b * block..((b + 1) * block).min(len) {
                    for c in 0..channels {
                        samples[t * channels + c] = v;
                    }
                }
            }
            let mut cfg = config::Encoder::default();
            cfg.multithread = true;
            cfg.workers = NonZeroUsize::new(*rng.pick(&[1usize, 2, 4, 8, 8, 16, 24]));
            cfg.block_size = block;
            let mode = *rng.pick(&[FillMode::Int, FillMode::Bytes, FillMode::Mixed]);
            let case = Case { audio: Arc::new(Audio { channels, bps, rate: 44100, samples, recipe: format!("{blocks} constant blocks, {pol:?}") }), cfg, block, mode, hint: rng.flip() };
            match observe(&case) {
                Ok(obs) => {
                    out.evaluations += 1;
                    out.count(if pi == 0 { "hashlag_slow_hasher" } else { "hashlag_slow_feeder" });
                    oracle_c03(ctx, "hashlag", idx * 2 + pi as u64, &case, &obs, out);
                    out.distinct.insert(case.key());
                }
                Err(e) => report_obs_err(ctx, "hashlag", idx * 2 + pi as u64, &case, &e, out),
            }
        });
    }
    crate::sched::perturb_only(None, 0);
    // a caller-driven loop (FrameBuf + Context + frame-level encodes) that refreshes a provisional
    // STREAMINFO after every block: md5_digest() / total_samples() are asked for BETWEEN the fills;
    // what is stated after the last block must be the MD5 / total of everything delivered, for
    // integer and for byte delivery alike
    let n = ctx.tier.pick(600, 20_000);
    run_cases(ctx, "callerloop", n, &mut out, |idx, out| {
        use flacenc::source::{Context, Fill, FrameBuf};
        let mut rng = Rng::for_case(ctx.seed, "C03.callerloop", idx);
        let case = gen_case(&mut rng, &Limits { max_samples: 4000, max_blocks: 6, max_block_size: 512, ..Limits::default() });
        let a = &case.audio;
        let bytes = idx % 2 == 1;
        let bps_bytes = (a.bps + 7) / 8;
        let r = crate::common::catch(|| -> Result<(Vec<[u8; 16]>, usize), String> {
            let mut fb = FrameBuf::with_size(a.channels, case.block).map_err(|e| format!("{e}"))?;
            let mut cx = Context::new(a.bps, a.channels);
            let mut digests = vec![];
            let mut pos = 0;
            while pos < a.frames() {
                let n = case.block.min(a.frames() - pos);
                let chunk = &a.samples[pos * a.channels..(pos + n) * a.channels];
                if bytes {
                    (&mut fb, &mut cx).fill_le_bytes(&gen::to_le_bytes(chunk, bps_bytes), bps_bytes).map_err(|e| format!("{e}"))?;
                } else {
                    (&mut fb, &mut cx).fill_interleaved(chunk).map_err(|e| format!("{e}"))?;
                }
                pos += n;
                // the provisional header
                digests.push(cx.md5_digest());
                if cx.total_samples() != pos {
                    return Err(format!("after {pos} samples the context counts {}", cx.total_samples()));
                }
            }
            digests.push(cx.md5_digest());
            Ok((digests, cx.total_samples()))
        });
        out.evaluations += 1;
        out.distinct.insert(case.key() ^ 0xCA11);
        let rp = || json!({"monitor": "C03", "sub": "callerloop", "index": idx, "seed": ctx.seed, "tier": ctx.tier.name(), "case": case.describe(), "bytes": bytes});
        match r {
            Ok(Ok((digests, total))) => {
                out.add("callerloop_provisional_digests", digests.len() as u64);
                let want = refdec::md5_of_pcm(&a.samples, a.bps as u32);
                if *digests.last().unwrap() != want {
                    out.violation(format!("C03|md5|bps{}", a.bps), format!("caller-driven loop ({} delivery, digest asked for after every block): final MD5 {:02x?} expected {:02x?}", if bytes { "byte" } else { "integer" }, digests.last().unwrap(), want), rp());
                }
                if total != a.frames() {
                    out.violation("C03|total-samples", format!("caller-driven loop: context counts {total}, {} were delivered", a.frames()), rp());
                }
                // every provisional digest is the digest of the prefix delivered so far
                let mut pos = 0;
                for d in &digests[..digests.len() - 1] {
                    pos = (pos + case.block).min(a.frames());
                    if *d != refdec::md5_of_pcm(&a.samples[..pos * a.channels], a.bps as u32) {
                        out.violation(format!("C03|md5|bps{}", a.bps), format!("caller-driven loop: the digest after {pos} samples is not the MD5 of that prefix"), rp());
                        break;
                    }
                }
            }
            Ok(Err(e)) => out.violation("C03|callerloop-refused", e, rp()),
            Err(p) => out.violation(format!("C03|panic|{}", p.site()), p.short(), rp()),
        }
    });
    // streams of more than 2^32 inter-channel samples (the total-samples field has 36 bits):
    // a generating source of 8-bit mono blocks that are constant within a block (cheap to encode)
    // and differ between blocks (order-sensitive for MD5); nothing is decoded - only STREAMINFO
    // and the frame count are compared with what the source handed over and hashed itself
    let ngiant = if std::env::var("VERIF_NO_GIANT").is_ok() || cfg!(miri) { 0 } else { ctx.tier.pick(0, 4) };
    run_cases(ctx, "giant", ngiant, &mut out, |idx, out| {
        let mut rng = Rng::for_case(ctx.seed, "C03.giant", idx);
        let total: u64 = (1u64 << 32) + rng.below(100_000);
        let block = *rng.pick(&[32_767usize, 16_384, 20_000]);
        let mt = idx % 2 == 1;
        let hint = idx % 4 >= 2;
        let mut src = GiantSource { total, pos: 0, hint, salt: rng.next_u64(), md5: md5::Md5::new(), reads: 0, bytes_mode: idx % 3 != 0 };
        let mut cfg = config::Encoder::default();
        cfg.multithread = mt;
        cfg.workers = NonZeroUsize::new(4);
        cfg.block_size = block;
        let desc = json!({"total_samples": total, "block": block, "multithread": mt, "len_hint": hint, "format": "1 ch x 8 bit, constant within a block, value differs per block"});
        let rp = || json!({"monitor": "C03", "sub": "giant", "index": idx, "seed": ctx.seed, "tier": ctx.tier.name(), "case": desc});
        let Ok(v) = enc::verified(&cfg) else { return };
        let r = crate::common::catch(|| flacenc::encode_with_fixed_block_size(&v, &mut src, block));
        out.evaluations += 1;
        match r {
            Ok(Ok(stream)) => {
                use md5::Digest;
                let want_md5: [u8; 16] = src.md5.clone().finalize().into();
                let want_frames = ((total + block as u64 - 1) / block as u64) as usize;
                out.distinct.insert(crate::prng::hash_str(&desc.to_string()));
                out.max("largest_total_samples_encoded", total);
                if stream.frame_count() != want_frames {
                    out.violation("C03|giant|frame-count", format!("{} frames for {total} samples at block {block}", stream.frame_count()), rp());
                }
                // serialise STREAMINFO only
                match enc::to_bytes(stream.stream_info()) {
                    Ok(b) => {
                        let inf = refdec::parse_streaminfo(&b);
                        if inf.total != total {
                            out.violation("C03|total-samples|giant", format!("STREAMINFO states {} samples, the source handed over {total}", inf.total), rp());
                        }
                        if inf.md5 != want_md5 {
                            out.violation("C03|md5|giant", format!("STREAMINFO MD5 {:02x?} expected {:02x?}", inf.md5, want_md5), rp());
                        }
                        if stream.stream_info().total_samples() as u64 != total {
                            out.violation("C03|accessors-vs-bytes", format!("accessor total_samples() = {}", stream.stream_info().total_samples()), rp());
                        }
                    }
                    Err(e) => out.violation("C03|giant|write-error", format!("{e:?}").chars().take(200).collect::<String>(), rp()),
                }
                out.sample(json!({"sub": "giant", "case": desc, "frames": stream.frame_count()}));
            }
            Ok(Err(e)) => out.violation("C03|giant|encode-error", format!("{e}"), rp()),
            Err(p) => out.violation(format!("C03|giant|encode-panic|{}", p.site()), p.short(), rp()),
        }
    });
    // a source that stalls (a capture device, a pipe whose writer pauses): the feeder blocks in
    // read_samples for 1.3 s before a later block while helper threads sit idle; totals and MD5
    // must not depend on how long the source took
    let nstall = if cfg!(miri) { 0 } else { ctx.tier.pick(2, 8) };
    run_cases(ctx, "stall", nstall, &mut out, |idx, out| {
        let mut rng = Rng::for_case(ctx.seed, "C03.stall", idx);
        let mut case = gen_case(&mut rng, &Limits { max_samples: 4000, max_blocks: 8, max_block_size: 256, ..Limits::default() });
        case.cfg.multithread = true;
        case.cfg.workers = NonZeroUsize::new(2 + rng.usize_below(3));
        case.hint = idx % 2 == 0;
        let Ok(v) = enc::verified(&case.cfg) else { return };
        let mut src = TestSource::new(Arc::clone(&case.audio), case.mode, case.hint);
        let nreads = (case.audio.frames() + case.block - 1) / case.block.max(1);
        src.stall = Some((nreads / 2 + 1, 1300));
        match enc::encode_stream(&v, &mut src, case.block) {
            Ok(stream) => match enc::to_bytes(&stream) {
                Ok(bytes) => {
                    let rep = refdec::decode_stream(&bytes);
                    let obs = Observed { stream, bytes, rep, delivered: src.delivered, reads: src.reads };
                    out.evaluations += 1;
                    out.count("sub_stall");
                    out.distinct.insert(case.key() ^ 0x57A11);
                    oracle_c03(ctx, "stall", idx, &case, &obs, out);
                }
                Err(e) => report_obs_err(ctx, "stall", idx, &case, &ObsErr::Ser(e, stream_placeholder()), out),
            },
            Err(e) => report_obs_err(ctx, "stall", idx, &case, &ObsErr::Enc(e), out),
        }
    });
    // length hints that disagree with what is delivered: the library's own MemSource after the
    // caller has already read k blocks from it (its hint keeps reporting the full length), an
    // exhausted MemSource, and test sources whose hint is off (too large, too small, zero, huge).
    // STREAMINFO must state what was consumed (total and MD5 of exactly the encoded samples), in
    // both thread modes.
    let nh = ctx.tier.pick(240, 6000);
    run_cases(ctx, "hints", nh, &mut out, |idx, out| {
        let mut rng = Rng::for_case(ctx.seed, "C03.hints", idx);
        let mut case = gen_case(&mut rng, &Limits { max_samples: 6000, max_blocks: 8, max_block_size: 512, ..Limits::default() });
        case.cfg.multithread = idx % 2 == 0;
        case.cfg.workers = NonZeroUsize::new(1 + rng.usize_below(4));
        let Ok(v) = enc::verified(&case.cfg) else { return };
        let a = Arc::clone(&case.audio);
        if idx % 3 == 0 {
            // partially consumed MemSource
            use flacenc::source::{FrameBuf, MemSource, Source};
            let mut src = MemSource::from_samples(&a.samples, a.channels, a.bps, a.rate);
            let nblocks = (a.frames() + case.block - 1) / case.block.max(1);
            let k = if idx % 9 == 0 { nblocks + 1 } else { rng.usize_below(nblocks + 1) };
            let mut consumed = 0usize;
            if let Ok(mut fb) = FrameBuf::with_size(a.channels, case.block) {
                for _ in 0..k {
                    match src.read_samples(case.block, &mut fb) {
                        Ok(n) => consumed += n,
                        Err(_) => return,
                    }
                }
            } else {
                return;
            }
            let rest = Audio { channels: a.channels, bps: a.bps, rate: a.rate, samples: a.samples[(consumed * a.channels).min(a.samples.len())..].to_vec(), recipe: format!("{} minus the first {consumed} samples (read from the MemSource before encoding)", a.recipe) };
            let rest_frames = rest.frames();
            let rcase = Case { audio: Arc::new(rest), cfg: case.cfg.clone(), block: case.block, mode: FillMode::Int, hint: true };
            match enc::encode_stream(&v, &mut src, case.block) {
                Ok(stream) => match enc::to_bytes(&stream) {
                    Ok(bytes) => {
                        let rep = refdec::decode_stream(&bytes);
                        let obs = Observed { stream, bytes, rep, delivered: rest_frames, reads: 0 };
                        out.evaluations += 1;
                        out.count("sub_hints_memsource_prefix_read");
                        if consumed > 0 {
                            out.distinct.insert(rcase.key() ^ 0x4171);
                        }
                        oracle_c03(ctx, "hints", idx, &rcase, &obs, out);
                        oracle_c01(ctx, "hints", idx, &rcase, &obs, out);
                    }
                    Err(e) => report_obs_err(ctx, "hints", idx, &rcase, &ObsErr::Ser(e, stream_placeholder()), out),
                },
                Err(e) => report_obs_err(ctx, "hints", idx, &rcase, &ObsErr::Enc(e), out),
            }
        } else {
            let mut src = TestSource::new(Arc::clone(&a), case.mode, true);
            src.hint_bias = match idx % 7 {
                0 => -(a.frames() as isize),
                1 => 1,
                2 => -1,
                3 => case.block as isize,
                4 => -(case.block as isize),
                5 => 1 << 33,
                _ => rng.below(2000) as isize - 1000,
            };
            case.hint = true;
            match enc::encode_stream(&v, &mut src, case.block) {
                Ok(stream) => match enc::to_bytes(&stream) {
                    Ok(bytes) => {
                        let rep = refdec::decode_stream(&bytes);
                        let obs = Observed { stream, bytes, rep, delivered: src.delivered, reads: src.reads };
                        out.evaluations += 1;
                        out.count("sub_hints_biased");
                        if a.frames() > 0 {
                            out.distinct.insert(case.key() ^ 0x4172);
                        }
                        oracle_c03(ctx, "hints", idx, &case, &obs, out);
                    }
                    Err(e) => report_obs_err(ctx, "hints", idx, &case, &ObsErr::Ser(e, stream_placeholder()), out),
                },
                Err(e) => report_obs_err(ctx, "hints", idx, &case, &ObsErr::Enc(e), out),
            }
        }
    });
    // byte sources whose container is wider than the byte-rounded sample width (16-bit samples in
    // 4-byte words, ...). The unchanged tree refuses them (C17's business); IF a stream is emitted,
    // its STREAMINFO is judged like any other (total = inter-channel samples handed over, MD5 of
    // the byte-rounded serialisation)
    let npad = ctx.tier.pick(120, 3000);
    run_cases(ctx, "padded", npad, &mut out, |idx, out| {
        let mut rng = Rng::for_case(ctx.seed, "C03.padded", idx);
        let mut case = gen_case(&mut rng, &Limits { max_samples: 4000, max_blocks: 6, max_block_size: 512, ..Limits::default() });
        case.cfg.multithread = idx % 2 == 0;
        case.cfg.workers = NonZeroUsize::new(1 + rng.usize_below(3));
        case.mode = FillMode::Bytes;
        case.hint = idx % 4 == 1;
        let Ok(v) = enc::verified(&case.cfg) else { return };
        let natural = (case.audio.bps + 7) / 8;
        let wide = natural + 1 + rng.usize_below(4 - natural.min(3));
        if wide > 4 || wide == natural {
            return;
        }
        let mut src = TestSource::new(Arc::clone(&case.audio), FillMode::Bytes, case.hint);
        src.bytes_per_sample = Some(wide);
        out.evaluations += 1;
        match enc::encode_stream(&v, &mut src, case.block) {
            Ok(stream) => match enc::to_bytes(&stream) {
                Ok(bytes) => {
                    let rep = refdec::decode_stream(&bytes);
                    let obs = Observed { stream, bytes, rep, delivered: src.delivered, reads: src.reads };
                    out.count("padded_container_accepted");
                    out.distinct.insert(case.key() ^ wide as u64);
                    oracle_c03(ctx, "padded", idx, &case, &obs, out);
                }
                Err(e) => report_obs_err(ctx, "padded", idx, &case, &ObsErr::Ser(e, stream_placeholder()), out),
            },
            Err(enc::EncErr::Api(..)) => out.count("padded_container_refused"),
            Err(e) => report_obs_err(ctx, "padded", idx, &case, &ObsErr::Enc(e), out),
        }
    });
    // the 36-bit total-samples field on its own (every tier): totals around 2^32 and up to 2^36-1
    // set through the public setter must be what the serialised STREAMINFO states
    run_cases(ctx, "total36", 24, &mut out, |idx, out| {
        let mut rng = Rng::for_case(ctx.seed, "C03.total36", idx);
        let t: u64 = match idx {
            0 => (1 << 32) - 1,
            1 => 1 << 32,
            2 => (1 << 32) + 1000,
            3 => (1 << 36) - 1,
            4 => 1 << 35,
            5 => (1 << 33) + 1,
            _ => rng.below(1 << 36),
        };
        let Ok(mut stream) = flacenc::component::Stream::new(44100, 2, 16) else { return };
        stream.stream_info_mut().set_total_samples(t as usize);
        out.evaluations += 1;
        out.distinct.insert(t ^ 0x7036);
        match enc::to_bytes(&stream) {
            Ok(b) if b.len() >= 42 => {
                let inf = refdec::parse_streaminfo(&b[8..42]);
                if inf.total != t {
                    out.violation("C03|total-samples|36bit-field", format!("set_total_samples({t}) is serialised as {}", inf.total), json!({"monitor": "C03", "sub": "total36", "index": idx, "seed": ctx.seed, "tier": ctx.tier.name(), "case": {"total": t}}));
                }
                if inf.rate != 44100 || inf.channels != 2 || inf.bps != 16 {
                    out.violation("C03|format-fields", format!("format fields disturbed by a total of {t}: rate {} ch {} bps {}", inf.rate, inf.channels, inf.bps), json!({"monitor": "C03", "sub": "total36", "index": idx, "seed": ctx.seed, "tier": ctx.tier.name(), "case": {"total": t}}));
                }
            }
            _ => out.count("total36_not_serialised"),
        }
    });
    // negative extremes at non-byte widths, explicit
    run_cases(ctx, "extremes", 60, &mut out, |idx, out| {
        let mut rng = Rng::for_case(ctx.seed, "C03.extremes", idx);
        let bps = gen::WIDTHS[(idx % 5) as usize];
        let channels = 1 + (idx / 5 % 3) as usize;
        let len = 1 + rng.usize_below(300);
        let vals = [gen::smin(bps), gen::smax(bps), -1, 0, 1, gen::smin(bps) + 1, -(1 << (bps - 2))];
        let samples: Vec<i32> = (0..len * channels).map(|_| *rng.pick(&vals)).collect();
        let mut cfg = config::Encoder::default();
        cfg.multithread = idx % 2 == 0;
        cfg.workers = NonZeroUsize::new(2);
        cfg.block_size = 64;
        let case = Case {
            audio: Arc::new(Audio { channels, bps, rate: 44100, samples, recipe: "extremes".into() }),
            cfg,
            block: 64,
            mode: if idx % 4 < 2 { FillMode::Int } else { FillMode::Bytes },
            hint: false,
        };
        match observe(&case) {
            Ok(obs) => {
                out.evaluations += 1;
                out.distinct.insert(case.key());
                oracle_c03(ctx, "extremes", idx, &case, &obs, out);
            }
            Err(e) => report_obs_err(ctx, "extremes", idx, &case, &e, out),
        }
    });
    let fin = Finish {
        level: "exploration",
        rule: "every observed stream's STREAMINFO is compared with the source's format, the number of samples the instrumented source handed over and the harness's own MD5 serialisation; 'variants' encodes one input 4 ways (1/many threads x integer/byte fill x with/without length hint); non-trivial = at least one frame",
        assumptions: vec!["md-5 crate supplies the MD5 compression function; the serialisation hashed is the harness's own".into(), "length hints that disagree with the delivered samples are generated (sub-workload hints): STREAMINFO must state what was consumed".into()],
        exhaustive: None,
        floors: vec![],
        extra: cov_extra(),
    };
    finish(ctx, out, fin)
}

pub fn run_c04(ctx: &Ctx) -> i32 {
    let mut out = Outcome::default();
    // enumerated residues
    let blocks: Vec<usize> = vec![32, 33, 64, 100, 4096, 32767];
    let mut grid: Vec<(usize, usize, usize)> = vec![];
    for b in &blocks {
        let residues: Vec<usize> = if *b <= 100 { (0..*b).collect() } else { (0..=16).chain([63, 64, 65, *b - 1]).collect() };
        let fulls: &[usize] = if *b <= 100 { &[0, 1, 2, 5] } else if *b == 4096 { &[0, 1, 2] } else { &[0, 1] };
        for r in residues {
            for k in fulls {
                if k * b + r > 0 {
                    grid.push((*b, *k, r));
                }
            }
        }
    }
    let grid = Arc::new(grid);
    let reps = ctx.tier.pick(2, 24);
    let g2 = Arc::clone(&grid);
    let n = (grid.len() as u64) * reps;
    run_cases(ctx, "residues", n, &mut out, |idx, out| {
        let mut rng = Rng::for_case(ctx.seed, "C04.residues", idx);
        let (b, k, r) = g2[(idx % g2.len() as u64) as usize];
        let bps = *rng.pick(&gen::WIDTHS);
        let channels = if b > 4096 { 1 } else { *rng.pick(&[1usize, 2, 2, 5]) };
        let len = k * b + r;
        let rate = gen::pick_rate(&mut rng);
        let audio = gen::gen_audio(&mut rng, channels, bps, rate, len);
        let mut cfg = gen::gen_config(&mut rng, &ConfigOpts::default());
        cfg.block_size = if rng.chance(1, 4) { *rng.pick(&[32usize, 4096, 1152, 32767]) } else { b };
        let case = Case { audio: Arc::new(audio), cfg, block: b, mode: if rng.flip() { FillMode::Int } else { FillMode::Bytes }, hint: rng.flip() };
        match observe(&case) {
            Ok(obs) => {
                out.evaluations += 1;
                out.distinct.insert(crate::prng::hash_str(&format!("{b}/{k}/{r}/{}", case.cfg.multithread)));
                note_coverage(&case, &obs, out);
                oracle_c04(ctx, "residues", idx, &case, &obs, out);
                if idx < 3 {
                    out.sample(json!({"block": b, "full_blocks": k, "residue": r, "case": case.describe(), "streaminfo": format!("{:?}", obs.rep.info)}));
                }
            }
            Err(e) => report_obs_err(ctx, "residues", idx, &case, &e, out),
        }
    });
    // largest frames reachable: 8 ch x 24 bit x 32767 full-scale noise
    let nbig = ctx.tier.pick(1, 6);
    run_cases(ctx, "largest", nbig, &mut out, |idx, out| {
        let mut rng = Rng::for_case(ctx.seed, "C04.largest", idx);
        let len = 32767 + rng.usize_below(100);
        let mut samples = vec![0i32; len * 8];
        for x in samples.iter_mut() {
            *x = rng.range(gen::smin(24) as i64, gen::smax(24) as i64) as i32;
        }
        let mut cfg = config::Encoder::default();
        cfg.multithread = idx % 2 == 1;
        cfg.workers = NonZeroUsize::new(2);
        cfg.block_size = 32767;
        let case = Case { audio: Arc::new(Audio { channels: 8, bps: 24, rate: 96000, samples, recipe: "noise_full x8".into() }), cfg, block: 32767, mode: FillMode::Int, hint: true };
        match observe(&case) {
            Ok(obs) => {
                out.evaluations += 1;
                out.distinct.insert(case.key());
                oracle_c04(ctx, "largest", idx, &case, &obs, out);
            }
            Err(e) => report_obs_err(ctx, "largest", idx, &case, &e, out),
        }
    });
    // block-size arguments outside 32..=32767 (the configuration's own block_size stays valid; the
    // argument is what counts): refusing them is what the unchanged tree does and is not judged
    // here (C17 does) - but IF a stream is emitted, it is an emitted stream and its STREAMINFO
    // must satisfy C04 like any other
    let nout = ctx.tier.pick(160, 3000);
    run_cases(ctx, "outside", nout, &mut out, |idx, out| {
        let mut rng = Rng::for_case(ctx.seed, "C04.outside", idx);
        let b = match idx % 8 {
            0..=4 => 1 + (idx as usize / 8) % 31,
            5 => 0,
            6 => 32768 + rng.usize_below(3),
            _ => 65535 + rng.usize_below(3),
        };
        let bps = *rng.pick(&gen::WIDTHS);
        let channels = *rng.pick(&[1usize, 2, 3]);
        let len = if b == 0 { 100 } else { (b * (1 + rng.usize_below(4)) + rng.usize_below(b)).min(70_000) };
        let audio = gen::gen_audio(&mut rng, channels, bps, 44100, len);
        let mut cfg = gen::gen_config(&mut rng, &ConfigOpts::default());
        cfg.subframe_coding.qlpc.lpc_order = cfg.subframe_coding.qlpc.lpc_order.min(8);
        let case = Case { audio: Arc::new(audio), cfg, block: b, mode: if rng.flip() { FillMode::Int } else { FillMode::Bytes }, hint: rng.flip() };
        out.evaluations += 1;
        match observe(&case) {
            Ok(obs) => {
                out.count("outside_block_size_accepted");
                out.distinct.insert(case.key());
                oracle_c04(ctx, "outside", idx, &case, &obs, out);
            }
            Err(ObsErr::Enc(enc::EncErr::Api(..))) | Err(ObsErr::ConfigRejected(_)) => out.count("outside_block_size_refused"),
            Err(e) => report_obs_err(ctx, "outside", idx, &case, &e, out),
        }
    });
    let mut subs = std_subs(ctx, 40, 25);
    subs.push(short_sub(ctx));
    subs.push(shortread_sub(ctx));
    drive(ctx, subs, &[oracle_c04], &mut out, has_frames);
    let short = out.stats.get("final_block_shorter_than_16").copied().unwrap_or(0);
    let fin = Finish {
        level: "exploration",
        rule: "'residues' enumerates block sizes {32,33,64,100,4096,32767} x every residue of the length (all for B<=100; 0..16,63..65,B-1 otherwise) x {0,1,2,5} full blocks with random content/configuration/thread mode; plus the common stream workload; distinct by (block, full blocks, residue, thread mode) resp. case hash",
        assumptions: vec![ASSUME_REFDEC.into()],
        exhaustive: Some(false),
        floors: vec![("streams whose final block is shorter than 16 samples".into(), short, 30)],
        extra: json!({"residue_grid_size": grid.len()}),
    };
    finish(ctx, out, fin)
}

/// A block whose zigzag sum (= the Rice quotient sum of a fixed order-0 candidate when
/// prc.max_parameter = 0) is k * 2^32 + delta, with the configuration that makes that candidate the
/// only predicted one.
pub fn wrap32_case(rng: &mut Rng, idx: u64) -> Option<Case> {
    let (bps, n) = *rng.pick(&[(24usize, 4096usize), (24, 1024), (24, 4608), (20, 16_384), (24, 32_767)]);
    let k = 1 + (idx % 3);
    let delta = *rng.pick(&[0u64, 1, 7, 1000, 40_000, 90_000]);
    let target: u64 = k * (1u64 << 32) + delta;
    let umax = (1u64 << bps) - 1;
    let base = target / n as u64;
    if base + 2 > umax {
        return None;
    }
    let mut u: Vec<u64> = vec![base; n];
    let rem = (target - base * n as u64) as usize;
    for x in u.iter_mut().take(rem) {
        *x += 1;
    }
    // sum-preserving perturbation
    let spread = (umax - base - 2).min(base).min(1 << 18);
    for _ in 0..n {
        let (i, j) = (rng.usize_below(n), rng.usize_below(n));
        let d = rng.below(spread + 1);
        if i != j && u[i] + d <= umax && u[j] >= d {
            u[i] += d;
            u[j] -= d;
        }
    }
    debug_assert_eq!(u.iter().sum::<u64>(), target);
    let samples: Vec<i32> = u.iter().map(|v| if v & 1 == 0 { (v >> 1) as i32 } else { -(((v >> 1) + 1) as i64) as i32 }).collect();
    let mut cfg = config::Encoder::default();
    cfg.multithread = false;
    cfg.block_size = n;
    cfg.subframe_coding.use_constant = false;
    cfg.subframe_coding.use_lpc = false;
    cfg.subframe_coding.use_fixed = true;
    cfg.subframe_coding.fixed.max_order = 0;
    cfg.subframe_coding.fixed.order_sel = if idx % 2 == 0 { config::OrderSel::BitCount } else { config::OrderSel::ApproxEnt { partitions: 16 } };
    cfg.subframe_coding.prc.max_parameter = 0;
    Some(Case { audio: Arc::new(Audio { channels: 1, bps, rate: 44100, samples, recipe: format!("zigzag-sum={k}*2^32+{delta}") }), cfg, block: n, mode: FillMode::Int, hint: true })
}

pub fn run_c09(ctx: &Ctx) -> i32 {
    let mut out = Outcome::default();
    let n = |q: u64, t: u64| ctx.tier.pick(q * 3, t * 4);
    let subs = vec![
        Sub { name: "loud", n: n(2500, 120_000), gen: Box::new(|r| loud_case(r, 9000)) },
        Sub { name: "side", n: n(400, 15_000), gen: Box::new(|r| side_case(r, 8000)) },
        Sub { name: "rice", n: n(300, 10_000), gen: Box::new(|r| rice_case(r, 20_000)) },
        Sub { name: "mix", n: n(800, 40_000), gen: Box::new(|r| gen_case(r, &lim(20_000))) },
        Sub { name: "lpc64", n: n(150, 5_000), gen: Box::new(|r| lpc64_case(r, 9000)) },
        short_sub(ctx),
    ];
    drive(ctx, subs, &[oracle_c09], &mut out, has_frames);
    // 32-bit wrap hunters: with prc.max_parameter = 0 and a fixed predictor of order 0 the Rice
    // quotient of a sample is its zigzag value, so the input alone decides the quotient sum of the
    // candidate: blocks are built so that the sum is k * 2^32 + delta for small delta. A correct
    // encoder sees a candidate of > 2^32 bits and stores the block verbatim; one whose size
    // bookkeeping wraps at 2^32 sees a "tiny" candidate and emits a 512 MiB frame.
    let nw = ctx.tier.pick(8, 64);
    run_cases(ctx, "wrap32", nw, &mut out, |idx, out| {
        let mut rng = Rng::for_case(ctx.seed, "C09.wrap32", idx);
        let Some(case) = wrap32_case(&mut rng, idx) else { return };
        match observe(&case) {
            Ok(obs) => {
                out.evaluations += 1;
                out.count("sub_wrap32");
                out.distinct.insert(case.key());
                oracle_c09(ctx, "wrap32", idx, &case, &obs, out);
            }
            Err(e) => report_obs_err(ctx, "wrap32", idx, &case, &e, out),
        }
    });
    // tail spikes: a cheap block (silence / tiny noise) with 1..3 full-scale samples at chosen
    // positions - the last len % 4 (% 8, % 16) samples, the first ones, both ends - under a
    // restricted Rice parameter, in blocks whose length is no multiple of any vector width. The
    // candidate's true cost is megabytes of unary code; a size bookkeeping that loses the head or
    // the remainder of a chunked sum sees a cheap candidate. (At most 3 spikes: the worst frame a
    // broken encoder can emit here stays below 8 MiB.)
    let nt = ctx.tier.pick(160, 4000);
    run_cases(ctx, "tailspike", nt, &mut out, |idx, out| {
        let mut rng = Rng::for_case(ctx.seed, "C09.tailspike", idx);
        let bps = *rng.pick(&[24usize, 24, 20]);
        let n = *rng.pick(&[4099usize, 4098, 4097, 1027, 1026, 1025, 4095, 67, 131, 32_767, 4096]);
        let channels = if rng.chance(1, 4) { 2 } else { 1 };
        let floor = *rng.pick(&[0i64, 0, 1, 3]);
        let full = gen::smax(bps) as i64;
        let mut samples: Vec<i32> = (0..n * channels).map(|_| if floor == 0 { 0 } else { rng.range(-floor, floor) as i32 }).collect();
        let nspikes = 1 + rng.usize_below(3);
        let place = rng.usize_below(4);
        let mut spikes = vec![];
        for k in 0..nspikes {
            let t = match place {
                0 => n - 1 - k,                       // the very end
                1 => k,                                // the very start
                2 => if k % 2 == 0 { n - 1 - k / 2 } else { k / 2 }, // both ends
                _ => n - 1 - rng.usize_below(n.min(17)), // somewhere in the last 16
            };
            let ch = rng.usize_below(channels);
            samples[t * channels + ch] = if rng.flip() { full as i32 } else { (-full - 1) as i32 };
            spikes.push(t);
        }
        let mut cfg = config::Encoder::default();
        cfg.multithread = false;
        cfg.block_size = n;
        cfg.subframe_coding.use_constant = rng.flip();
        cfg.subframe_coding.use_lpc = rng.chance(1, 3);
        cfg.subframe_coding.use_fixed = true;
        cfg.subframe_coding.fixed.max_order = rng.usize_below(5);
        cfg.subframe_coding.fixed.order_sel = if idx % 2 == 0 { config::OrderSel::BitCount } else { config::OrderSel::ApproxEnt { partitions: *rng.pick(&[1usize, 16, 64]) } };
        cfg.subframe_coding.prc.max_parameter = *rng.pick(&[0usize, 0, 1, 2, 4]);
        let case = Case { audio: Arc::new(Audio { channels, bps, rate: 44100, samples, recipe: format!("tailspike n={n} spikes at {spikes:?} floor {floor}") }), cfg, block: n, mode: FillMode::Int, hint: true };
        match observe(&case) {
            Ok(obs) => {
                out.evaluations += 1;
                out.count("sub_tailspike");
                out.distinct.insert(case.key());
                oracle_c09(ctx, "tailspike", idx, &case, &obs, out);
            }
            Err(e) => report_obs_err(ctx, "tailspike", idx, &case, &e, out),
        }
    });
    // break-even seeking: for a fixed noise shape the amplitude at which the encoder switches from
    // a predicted subframe to verbatim is found by bisection, and the frame bound is then checked
    // on a fine amplitude grid around that point - the narrow band in which any slack in the size
    // comparison (an under-counted candidate, a bound taken from the wrong quantity) shows
    let nb = ctx.tier.pick(60, 2000);
    run_cases(ctx, "breakeven", nb, &mut out, |idx, out| {
        use flacenc::component::{BitRepr, SubFrame};
        use flacenc::source::Fill;
        let mut rng = Rng::for_case(ctx.seed, "C09.breakeven", idx);
        let bps = *rng.pick(&[16usize, 16, 24, 20, 12]);
        let channels = *rng.pick(&[1usize, 1, 2]);
        let n = *rng.pick(&[4096usize, 1024, 4096, 576, 192]);
        let colour = *rng.pick(&[0.0f64, 0.0, 0.5, -0.5, 0.9]);
        let mut shape = vec![0f64; n * channels];
        let mut prev = vec![0f64; channels];
        for t in 0..n {
            for c in 0..channels {
                let e = 2.0 * rng.f64() - 1.0;
                let v = colour * prev[c] + (1.0 - colour.abs()) * e;
                prev[c] = v;
                shape[t * channels + c] = v;
            }
        }
        let mut cfg = config::Encoder::default();
        cfg.multithread = false;
        cfg.block_size = n;
        match idx % 4 {
            0 => {}
            1 => {
                cfg.subframe_coding.qlpc.lpc_order = 24;
            }
            2 => cfg.subframe_coding.use_fixed = false,
            _ => cfg.subframe_coding.use_lpc = false,
        }
        let Ok(v) = enc::verified(&cfg) else { return };
        let full = gen::smax(bps) as f64;
        let Ok(si) = flacenc::component::StreamInfo::new(44100, channels, bps) else { return };
        let Ok(mut fb) = flacenc::source::FrameBuf::with_size(channels, n) else { return };
        // returns (frame bytes, header bits, any predicted subframe?)
        let mut probe = |a: f64| -> Option<(usize, usize, bool)> {
            let samples: Vec<i32> = shape.iter().map(|x| (a * full * x).round().clamp(gen::smin(bps) as f64, full) as i32).collect();
            fb.fill_interleaved(&samples).ok()?;
            let f = crate::common::catch(|| flacenc::encode_fixed_size_frame(&v, &fb, 0, &si)).ok()?.ok()?;
            let predicted = (0..f.subframe_count()).any(|c| matches!(f.subframe(c), Some(SubFrame::FixedLpc(_) | SubFrame::Lpc(_))));
            let bytes = enc::to_bytes(&f).ok()?.len();
            Some((bytes, f.header().count_bits(), predicted))
        };
        let (mut lo, mut hi) = (0.05f64, 1.0f64);
        let (Some(pl), Some(ph)) = (probe(lo), probe(hi)) else { return };
        if !pl.2 || ph.2 {
            // no switch inside the range (always verbatim or never): still check the two ends
            out.count("breakeven_no_switch_in_range");
        } else {
            for _ in 0..14 {
                let mid = 0.5 * (lo + hi);
                match probe(mid) {
                    Some(p) if p.2 => lo = mid,
                    Some(_) => hi = mid,
                    None => break,
                }
            }
        }
        let centre = 0.5 * (lo + hi);
        for k in 0..32 {
            let a = (centre * (0.985 + 0.03 * k as f64 / 31.0)).min(1.0);
            let Some((bytes, hbits, _)) = probe(a) else { continue };
            out.evaluations += 1;
            let bound = frame_bound_bytes(hbits, channels, bps, n);
            out.max("breakeven_len_permille_of_bound", (bytes * 1000 / bound) as u64);
            if bytes > bound {
                out.violation("C09|frame-larger-than-verbatim|breakeven", format!("amplitude {a:.5} of full scale ({channels} ch x {bps} bit, n={n}, colour {colour}, config variant {}): frame of {bytes} bytes > bound {bound}", idx % 4), json!({"monitor": "C09", "sub": "breakeven", "index": idx, "seed": ctx.seed, "tier": ctx.tier.name(), "case": {"bps": bps, "channels": channels, "n": n, "colour": colour, "amplitude": a, "config_variant": idx % 4}}));
                break;
            }
        }
        out.distinct.insert(crate::prng::hash_str(&format!("{idx}/{bps}/{channels}/{n}/{colour}")));
    });
    // frame-level first: count_bits() of hostile frames without serialising anything
    let nf = ctx.tier.pick(4500, 240_000);
    run_cases(ctx, "framecount", nf, &mut out, |idx, out| {
        use flacenc::component::BitRepr;
        use flacenc::source::Fill;
        let mut rng = Rng::for_case(ctx.seed, "C09.framecount", idx);
        let case = loud_case(&mut rng, 9000);
        let Ok(v) = enc::verified(&case.cfg) else { return };
        let a = &case.audio;
        let r = crate::common::catch(|| {
            let mut fb = flacenc::source::FrameBuf::with_size(a.channels, case.block).unwrap();
            let n = case.block.min(a.frames());
            fb.fill_interleaved(&a.samples[..n * a.channels]).unwrap();
            let si = flacenc::component::StreamInfo::new(a.rate, a.channels, a.bps).unwrap();
            flacenc::encode_fixed_size_frame(&v, &fb, (idx % 1000) as usize, &si).map(|f| (f.count_bits(), f.header().count_bits(), n))
        });
        match r {
            Ok(Ok((bits, hbits, n))) => {
                out.evaluations += 1;
                out.distinct.insert(case.key() ^ 0x99);
                let bound = frame_bound_bytes(hbits, a.channels, a.bps, n);
                out.max("framecount_len_permille_of_bound", (bits / 8 * 1000 / bound) as u64);
                if bits / 8 > bound {
                    out.violation("C09|frame-larger-than-verbatim|count", format!("encode_fixed_size_frame returned a frame of {} bytes > bound {} (n={n}, {} ch x {} bit)", bits / 8, bound, a.channels, a.bps), json!({"monitor": "C09", "sub": "framecount", "index": idx, "seed": ctx.seed, "tier": ctx.tier.name(), "case": case.describe()}));
                }
            }
            Ok(Err(e)) => out.violation("C09|encode-error", format!("{e}"), json!({"sub": "framecount", "index": idx})),
            Err(p) => out.violation(format!("C09|encode-panic|{}", p.site()), p.short(), json!({"sub": "framecount", "index": idx})),
        }
    });
    let fin = Finish {
        level: "exploration",
        rule: "byte length of every emitted frame (from refdec's frame boundaries, or Frame::count_bits() when above the serialisation cap) against ceil((header+C*(8+b*n))/8)+2+2C; workload biased to 16/20/24-bit loud, heavy-tailed, alternating and anti-correlated content with Rice max parameter in {0,1,2,4,8,14} and every order-selection mode; non-trivial = at least one frame",
        assumptions: vec![ASSUME_REFDEC.into()],
        exhaustive: None,
        floors: vec![],
        extra: cov_extra(),
    };
    finish(ctx, out, fin)
}

pub fn run_c13(ctx: &Ctx) -> i32 {
    let mut out = Outcome::default();
    let n = |q: u64, t: u64| ctx.tier.pick(q * 3, t * 4);
    let subs = vec![
        Sub { name: "rice", n: n(1400, 60_000), gen: Box::new(|r| rice_case(r, 40_000)) },
        Sub { name: "loud", n: n(500, 25_000), gen: Box::new(|r| loud_case(r, 9000)) },
        Sub { name: "mix", n: n(500, 30_000), gen: Box::new(|r| gen_case(r, &lim(20_000))) },
        Sub { name: "lpc64", n: n(100, 5_000), gen: Box::new(|r| lpc64_case(r, 9000)) },
        Sub { name: "burst", n: n(400, 20_000), gen: Box::new(burst_case) },
    ];
    // evaluations are counted per residual inside the oracle
    sched::install();
    for sub in subs {
        let tag = format!("C13.{}", sub.name);
        run_cases(ctx, sub.name, sub.n, &mut out, |idx, out| {
            let mut rng = Rng::for_case(ctx.seed, &tag, idx);
            let case = (sub.gen)(&mut rng);
            // every sixth case is observed right after failed writes on this thread
            if idx % 6 == 5 {
                crate::poison::failing_writes(&mut Rng::for_case(ctx.seed, "poison", idx));
                out.count("cases_observed_after_failed_writes_on_the_thread");
            }
            match observe(&case) {
                Ok(obs) => {
                    out.count("streams");
                    oracle_c13(ctx, sub.name, idx, &case, &obs, out);
                    if idx < 2 {
                        let first = obs.rep.frames.iter().flat_map(|f| f.subframes.iter()).find_map(|s| s.residual.as_ref().map(|r| json!({"kind": format!("{:?}", s.kind), "partition_order": r.order, "params": r.params.iter().take(8).map(|p| p.0).collect::<Vec<_>>(), "bits": r.bits, "n": r.values.len(), "max_abs": r.values.iter().map(|v| v.unsigned_abs()).max()})));
                        out.sample(json!({"sub": sub.name, "case": case.describe(), "first_residual": first}));
                    }
                }
                Err(e) => report_obs_err(ctx, sub.name, idx, &case, &e, out),
            }
        });
    }
    let big = out.stats.get("residuals_with_abs_gt_2^15").copied().unwrap_or(0);
    let orders = out.stats.keys().filter(|k| k.starts_with("partition_order_")).count() as u64;
    let fin = Finish {
        level: "exploration",
        rule: "every FIXED/LPC residual recovered from the emitted bytes by refdec (values, partition order, parameters, coded size) is compared with a brute-force optimum over the encoder's search space (orders with 2^o | n and n>>o >= max(64, predictor order); parameters 0..=configured max) computed in u64; evaluations = residuals checked; distinct by hash of (residual values, n, predictor order, max parameter)",
        assumptions: vec!["the residual values and coded size are those refdec recovers from the bytes".into(), "the property is only asserted when the optimum is below 2^28 bits".into()],
        exhaustive: None,
        floors: vec![
            ("residuals with max |e| > 2^15".into(), big, ctx.tier.pick(300, 5000)),
            ("distinct partition orders chosen".into(), orders, 5),
        ],
        extra: cov_extra(),
    };
    finish(ctx, out, fin)
}

/// A stream of one or two frames whose subframes are built with the public constructors
/// (`Residual::new`, `FixedLpc::new`, `Lpc::new`, `QuantizedParameters::new`, `Frame::new`) from a
/// signal this function chooses; returns the case (audio = that signal) and the stream, or `None`
/// when a residual does not fit the coded range (the draw is skipped, never judged).
pub fn constructed_stream(rng: &mut Rng) -> Option<(Case, flacenc::component::Stream)> {
    use flacenc::component::{ChannelAssignment, FixedLpc, Frame, FrameHeader, FrameOffset, Lpc, QuantizedParameters, Residual, Stream, SubFrame};
    let channels = *rng.pick(&[1usize, 1, 2, 3]);
    let bps = *rng.pick(&gen::WIDTHS);
    let n = *rng.pick(&[16usize, 32, 48, 64, 96, 128, 192, 256, 384, 512, 576, 1024, 1152, 4096]);
    let nframes = 1 + rng.usize_below(2);
    let tz = (n.trailing_zeros() as usize).min(15);
    let lim = 1i64 << (bps - 1);
    let mut desc = format!("constructed n={n} frames={nframes}:");
    let mut stream = Stream::new(44100, channels, bps).ok()?;
    let mut pcm = vec![0i32; n * nframes * channels];
    for f in 0..nframes {
        let mut subs: Vec<SubFrame> = vec![];
        for ch in 0..channels {
            let po = rng.usize_below(tz + 1);
            let part_len = n >> po;
            let lpc = rng.chance(1, 2);
            let max_order = part_len.min(if lpc { 24 } else { 4 });
            let min_order = if lpc { 1 } else { 0 };
            if max_order < min_order {
                return None;
            }
            let order = if rng.chance(1, 2) && part_len <= max_order { part_len } else { rng.urange(min_order, max_order) };
            // the signal: a sine with a little noise, amplitude well inside the width
            let amp = (lim as f64) * [0.9, 0.3, 0.02][rng.usize_below(3)];
            let w = 0.01 + (rng.usize_below(300) as f64) * 0.001;
            let noise = 1 + rng.usize_below(4) as i64;
            let sig: Vec<i32> = (0..n)
                .map(|t| {
                    let v = (amp * (w * t as f64).sin()) as i64 + rng.range(-noise, noise);
                    v.clamp(-lim, lim - 1) as i32
                })
                .collect();
            // predictor
            let (coefs, shift, precision): (Vec<i64>, usize, usize) = if lpc {
                let precision = rng.urange(2, 15) as usize;
                let cl = 1i64 << (precision - 1);
                let mut coefs: Vec<i64> = (0..order).map(|_| rng.range(-cl, cl - 1)).collect();
                // one predictor in four has taps that are exactly zero: the last ones (another
                // encoder does not trim them; this library's own quantiser does, so its encoder
                // never emits one), the first ones, every other one, or all of them
                if rng.chance(1, 4) {
                    let k = 1 + rng.usize_below(order);
                    match rng.usize_below(4) {
                        0 => coefs[order - k..].fill(0),
                        1 => coefs[..k].fill(0),
                        2 => coefs.iter_mut().step_by(2).for_each(|c| *c = 0),
                        _ => coefs.fill(0),
                    }
                    desc.push_str(" zero-taps");
                }
                // keep the prediction gain bounded: sum |c| / 2^shift <= about 4
                let sum: i64 = coefs.iter().map(|c| c.abs()).sum::<i64>().max(1);
                let need = (64 - (sum as u64).leading_zeros() as usize).saturating_sub(2);
                (coefs, need.min(15), precision)
            } else {
                (FIXED_COEFS[order][..order].iter().map(|c| *c as i64).collect(), 0, 0)
            };
            let nparts = 1usize << po;
            let mut folded = vec![0u32; n];
            for t in order..n {
                let mut pred = 0i64;
                for (j, c) in coefs.iter().enumerate() {
                    pred += c * sig[t - 1 - j] as i64;
                }
                let e = sig[t] as i64 - (pred >> shift);
                if e.abs() >= (1 << 22) {
                    return None;
                }
                folded[t] = if e >= 0 { (e as u32) << 1 } else { (((-e) as u32) << 1) - 1 };
            }
            let mut params = vec![0u8; nparts];
            let mut q = vec![0u32; n];
            let mut r = vec![0u32; n];
            for p in 0..nparts {
                let (a, b) = ((p * part_len).max(order), (p + 1) * part_len);
                let mx = folded[a.min(b)..b].iter().copied().max().unwrap_or(0);
                let bits = 32 - mx.leading_zeros() as usize;
                let k = if rng.chance(1, 6) { rng.usize_below(15) } else { bits.saturating_sub(rng.usize_below(4)) }.min(14);
                // bound the unary part: at most 2^9 per sample
                let k = k.max(bits.saturating_sub(9)).min(14);
                params[p] = k as u8;
                for t in a.min(b)..b {
                    q[t] = folded[t] >> k;
                    r[t] = folded[t] & ((1u32 << k) - 1);
                }
            }
            let res = Residual::new(po, n, order, &params, &q, &r).ok()?;
            let sf: SubFrame = if lpc {
                let c16: Vec<i16> = coefs.iter().map(|c| *c as i16).collect();
                let qp = QuantizedParameters::new(&c16, order, shift as i8, precision).ok()?;
                Lpc::new(&sig[..order], qp, res, bps).ok()?.into()
            } else {
                FixedLpc::new(&sig[..order], res, bps).ok()?.into()
            };
            subs.push(sf);
            desc.push_str(&format!(" [{} order={order} po={po} part_len={part_len} {}]", if lpc { "lpc" } else { "fixed" }, if order == part_len && order > 0 { "first_partition_all_warmup" } else { "" }));
            for t in 0..n {
                pcm[(f * n + t) * channels + ch] = sig[t];
            }
        }
        let h = FrameHeader::new(n, ChannelAssignment::Independent(channels as u8), bps, 44100, FrameOffset::Frame(f as u32)).ok()?;
        stream.add_frame(Frame::new(h, subs.into_iter()).ok()?);
    }
    stream.stream_info_mut().set_block_sizes(n, n).ok()?;
    stream.stream_info_mut().set_total_samples(n * nframes);
    let audio = Audio { channels, bps, rate: 44100, samples: pcm, recipe: desc };
    let case = Case { audio: Arc::new(audio), cfg: config::Encoder::default(), block: n, mode: FillMode::Int, hint: false };
    Some((case, stream))
}

const FIXED_COEFS: [[i32; 4]; 5] = [[0, 0, 0, 0], [1, 0, 0, 0], [2, -1, 0, 0], [3, -3, 1, 0], [4, -6, 4, -1]];

pub fn run_c15(ctx: &Ctx) -> i32 {
    let mut out = Outcome::default();
    let mut subs = std_subs(ctx, 70, 40);
    subs.push(short_sub(ctx));
    drive(ctx, subs, &[oracle_c15], &mut out, |_c, _o| true);
    // streams with added unknown metadata blocks and the empty stream
    let n = ctx.tier.pick(600, 20_000);
    run_cases(ctx, "metadata", n, &mut out, |idx, out| {
        use flacenc::component::MetadataBlockData;
        let mut rng = Rng::for_case(ctx.seed, "C15.metadata", idx);
        let mut case = gen_case(&mut rng, &lim(3000));
        if idx % 10 == 0 {
            let a = Audio { samples: vec![], ..(*case.audio).clone() };
            case.audio = Arc::new(a);
        }
        let Ok(v) = enc::verified(&case.cfg) else { return };
        let mut src = TestSource::new(Arc::clone(&case.audio), case.mode, case.hint);
        match enc::encode_stream(&v, &mut src, case.block) {
            Ok(mut stream) => {
                let nblocks = rng.usize_below(4);
                for _ in 0..nblocks {
                    let tag = rng.urange(1, 126) as u8;
                    // mostly small; one block in eight is at or beyond the 16-bit length boundary
                    let len = if rng.chance(1, 8) { *rng.pick(&[65_535usize, 65_536, 65_537, 70_000, 131_072, 300_000]) } else { *rng.pick(&[0usize, 1, 4, 33, 255, 256, 1000]) };
                    let data: Vec<u8> = (0..len).map(|_| rng.next_u64() as u8).collect();
                    stream.add_metadata_block(MetadataBlockData::new_unknown(tag, &data).unwrap());
                }
                match enc::to_bytes(&stream) {
                    Ok(bytes) => {
                        let rep = refdec::decode_stream(&bytes);
                        let obs = Observed { stream, bytes, rep, delivered: src.delivered, reads: src.reads };
                        out.evaluations += 1;
                        out.count(&format!("metadata_blocks_{nblocks}"));
                        out.distinct.insert(case.key() ^ nblocks as u64);
                        if obs.rep.meta.len() != nblocks {
                            out.violation("C15|metadata-count", format!("{} blocks added, refdec sees {}", nblocks, obs.rep.meta.len()), json!({"sub": "metadata", "index": idx}));
                        }
                        oracle_c15(ctx, "metadata", idx, &case, &obs, out);
                    }
                    Err(e) => report_obs_err(ctx, "metadata", idx, &case, &ObsErr::Ser(e, stream_placeholder()), out),
                }
            }
            Err(e) => report_obs_err(ctx, "metadata", idx, &case, &ObsErr::Enc(e), out),
        }
    });
    // streams a user assembles frame by frame with Stream::add_frame and nothing else (no
    // set_block_sizes afterwards: STREAMINFO keeps what add_frame derived, e.g. a minimum block size
    // below 16 after a short last block, or a one-frame stream whose bounds are that frame's):
    // they are serialised by this library, so its parser must take them back
    let n = ctx.tier.pick(600, 20_000);
    run_cases(ctx, "assembled", n, &mut out, |idx, out| {
        use flacenc::source::{Context, FrameBuf, Source};
        let mut rng = Rng::for_case(ctx.seed, "C15.assembled", idx);
        let mut case = gen_case(&mut rng, &Limits { max_samples: 3000, max_blocks: 4, max_block_size: 512, ..Limits::default() });
        // tails: 1..=15 (below the smallest legal minimum), 16, 17, 31, none
        let tail = match idx % 6 {
            0 => 1 + rng.usize_below(15),
            1 => 16,
            2 => 17 + rng.usize_below(15),
            3 => 0,
            _ => rng.usize_below(case.block),
        };
        let full = (idx as usize / 6) % 3;
        let want = (full * case.block + tail).max(1);
        let mut a = (*case.audio).clone();
        let ch = a.channels;
        while a.samples.len() < want * ch {
            let l = a.samples.len().max(ch);
            let ext: Vec<i32> = (0..l).map(|i| a.samples.get(i).copied().unwrap_or(0)).collect();
            a.samples.extend(ext);
        }
        a.samples.truncate(want * ch);
        case.audio = Arc::new(a);
        let Ok(v) = enc::verified(&case.cfg) else { return };
        let audio = Arc::clone(&case.audio);
        let block = case.block;
        let r = crate::common::catch(|| -> Result<flacenc::component::Stream, flacenc::error::EncodeError> {
            let mut src = TestSource::new(Arc::clone(&audio), case.mode, false);
            let mut stream = flacenc::component::Stream::new(audio.rate, audio.channels, audio.bps)?;
            let mut fb_ctx = (FrameBuf::with_size(audio.channels, block)?, Context::new(audio.bps, audio.channels));
            loop {
                let read = src.read_samples(block, &mut fb_ctx)?;
                if read == 0 {
                    break;
                }
                let frame = flacenc::encode_fixed_size_frame(&v, &fb_ctx.0, fb_ctx.1.current_frame_number().unwrap(), stream.stream_info())?;
                stream.add_frame(frame);
            }
            stream.stream_info_mut().set_md5_digest(&fb_ctx.1.md5_digest());
            stream.stream_info_mut().set_total_samples(fb_ctx.1.total_samples());
            Ok(stream)
        });
        match r {
            Ok(Ok(stream)) => match enc::to_bytes(&stream) {
                Ok(bytes) => {
                    let rep = refdec::decode_stream(&bytes);
                    out.evaluations += 1;
                    out.count("sub_assembled");
                    if rep.info.min_block < 16 {
                        out.count("assembled_streams_with_min_block_below_16");
                    }
                    out.distinct.insert(case.key() ^ 0xA55E);
                    let delivered = case.audio.frames();
                    let obs = Observed { stream, bytes, rep, delivered, reads: 0 };
                    oracle_c15(ctx, "assembled", idx, &case, &obs, out);
                }
                Err(e) => report_obs_err(ctx, "assembled", idx, &case, &ObsErr::Ser(e, stream_placeholder()), out),
            },
            Ok(Err(e)) => out.violation("C15|assembled|encode-error", format!("{e}"), json!({"sub": "assembled", "index": idx, "case": case.describe()})),
            Err(p) => out.violation(format!("C15|assembled|panic|{}", p.site()), p.short(), json!({"sub": "assembled", "index": idx, "case": case.describe()})),
        }
    });
    // streams assembled from CONSTRUCTED predictive subframes (public constructors): every partition
    // order the block length allows (down to one-sample partitions), predictor orders up to the
    // length of the first partition - half of them exactly equal to it, so that the first
    // partition carries no residual at all -, fixed orders 0..=4 and LPC orders 1..=24 with random
    // coefficients / precisions / shifts, per-partition parameters 0..=14. The encoder never picks
    // partitions shorter than 64 samples, so none of this is reachable from encoded streams.
    let n = ctx.tier.pick(1500, 60_000);
    run_cases(ctx, "constructed", n, &mut out, |idx, out| {
        let mut rng = Rng::for_case(ctx.seed, "C15.constructed", idx);
        let Some((case, stream)) = constructed_stream(&mut rng) else {
            out.count("constructed_skipped");
            return;
        };
        match enc::to_bytes(&stream) {
            Ok(bytes) => {
                let rep = refdec::decode_stream(&bytes);
                let delivered = case.audio.samples.len();
                let obs = Observed { stream, bytes, rep, delivered, reads: 0 };
                out.evaluations += 1;
                out.distinct.insert(case.key() ^ 0xC0_57);
                if case.audio.recipe.contains("first_partition_all_warmup") {
                    out.count("constructed_first_partition_all_warmup");
                }
                if case.audio.recipe.contains("part_len=1 ") {
                    out.count("constructed_one_sample_partitions");
                }
                if let Some(i) = obs.rep.fatal() {
                    out.violation(format!("C15|constructed-stream-malformed|{}", i.clause), format!("refdec: {}", i.detail), json!({"monitor": "C15", "sub": "constructed", "index": idx, "seed": ctx.seed, "tier": ctx.tier.name(), "case": case.describe()}));
                } else if obs.rep.pcm != case.audio.samples {
                    out.violation("C15|constructed-refdec-differs", "the reference decoder does not reproduce the signal the subframes were built from", json!({"monitor": "C15", "sub": "constructed", "index": idx, "seed": ctx.seed, "tier": ctx.tier.name(), "case": case.describe()}));
                }
                oracle_c15(ctx, "constructed", idx, &case, &obs, out);
            }
            Err(e) => report_obs_err(ctx, "constructed", idx, &case, &ObsErr::Ser(e, stream_placeholder()), out),
        }
    });
    // every block length 1..=32767 as a (final) frame: DC block through the frame-level entry
    // point, serialised, parsed alone, verified, re-serialised, decoded
    run_cases(ctx, "blocklen", 32_767, &mut out, |idx, out| {
        use flacenc::component::Decode;
        use flacenc::error::Verify;
        let n = idx as usize + 1;
        let r = crate::common::catch(|| -> Result<(), String> {
            let cfg = config::Encoder::default();
            let v = enc::verified(&cfg)?;
            let si = flacenc::component::StreamInfo::new(44100, 1, 16).map_err(|e| format!("{e}"))?;
            let mut fb = flacenc::source::FrameBuf::with_size(1, n.max(32)).map_err(|e| format!("{e}"))?;
            let data = vec![(n % 97) as i32 - 48; n];
            flacenc::source::Fill::fill_interleaved(&mut fb, &data).map_err(|e| format!("{e}"))?;
            let f = flacenc::encode_fixed_size_frame(&v, &fb, n % 300, &si).map_err(|e| format!("encode: {e}"))?;
            let bytes = enc::to_bytes(&f).map_err(|e| format!("{e:?}"))?;
            type NomErr<'a> = nom::error::Error<&'a [u8]>;
            let mut p = flacenc::component::parser::frame::<NomErr<'_>>(&si, true);
            let (rest, f2) = p(&bytes).map_err(|e| format!("parser::frame rejects the frame: {}", format!("{e:?}").chars().take(100).collect::<String>()))?;
            if !rest.is_empty() {
                return Err(format!("{} bytes left unconsumed", rest.len()));
            }
            f2.verify().map_err(|e| format!("parsed frame does not verify: {e}"))?;
            if enc::to_bytes(&f2).map_err(|e| format!("{e:?}"))? != bytes {
                return Err("re-serialised frame differs".into());
            }
            if f2.decode() != data {
                return Err("Decode of the parsed frame differs from the input".into());
            }
            Ok(())
        });
        out.evaluations += 1;
        out.distinct.insert(0xB10C_0000 + idx);
        match r {
            Ok(Ok(())) => {}
            Ok(Err(e)) => out.violation(format!("C15|blocklen|{}", e.split(':').next().unwrap_or("?").chars().take(40).collect::<String>()), format!("block length {n}: {e}"), json!({"monitor": "C15", "sub": "blocklen", "index": idx, "seed": ctx.seed, "tier": ctx.tier.name(), "case": {"block_length": n}})),
            Err(p) => out.violation(format!("C15|blocklen-panic|{}", p.site()), p.short(), json!({"monitor": "C15", "sub": "blocklen", "index": idx, "seed": ctx.seed, "tier": ctx.tier.name(), "case": {"block_length": n}})),
        }
    });
    // single frames at every length class of the coded frame number (and random numbers): encode
    // through the frame-level entry point, serialise, parse alone, verify, re-serialise, decode
    let mut numbers: Vec<u64> = vec![0, 1];
    for k in [7u32, 11, 16, 21, 26, 31] {
        let b = 1u64 << k;
        for d in [-2i64, -1, 0, 1, 2] {
            let v = b as i64 + d;
            if (0..(1i64 << 31)).contains(&v) {
                numbers.push(v as u64);
            }
        }
    }
    let numbers = Arc::new(numbers);
    let nn = numbers.len() as u64 + ctx.tier.pick(2000, 100_000);
    let nums = Arc::clone(&numbers);
    run_cases(ctx, "framenum", nn, &mut out, |idx, out| {
        use flacenc::component::{BitRepr, Decode};
        use flacenc::error::Verify;
        let mut rng = Rng::for_case(ctx.seed, "C15.framenum", idx);
        let num = if (idx as usize) < nums.len() { nums[idx as usize] } else { rng.next_u64() >> rng.urange(33, 63) } as usize;
        let channels = *rng.pick(&[1usize, 2, 2, 3]);
        let bps = *rng.pick(&gen::WIDTHS);
        let n = *rng.pick(&[32usize, 64, 100, 192]);
        let a = gen::gen_audio(&mut rng, channels, bps, 44100, n);
        let cfg = gen::gen_config(&mut rng, &ConfigOpts { multithread: Some(false), min_max_parameter: 6, no_experimental: false });
        let Ok(v) = enc::verified(&cfg) else { return };
        let rp = || json!({"monitor": "C15", "sub": "framenum", "index": idx, "seed": ctx.seed, "tier": ctx.tier.name(), "case": {"frame_number": num, "channels": channels, "bps": bps, "n": n, "signal": a.recipe}});
        let r = crate::common::catch(|| -> Result<(), String> {
            let si = flacenc::component::StreamInfo::new(44100, channels, bps).map_err(|e| format!("{e}"))?;
            let mut fb = flacenc::source::FrameBuf::with_size(channels, n).map_err(|e| format!("{e}"))?;
            flacenc::source::Fill::fill_interleaved(&mut fb, &a.samples).map_err(|e| format!("{e}"))?;
            let f = flacenc::encode_fixed_size_frame(&v, &fb, num, &si).map_err(|e| format!("encode: {e}"))?;
            let bytes = enc::to_bytes(&f).map_err(|e| format!("{e:?}"))?;
            type NomErr<'a> = nom::error::Error<&'a [u8]>;
            let mut p = flacenc::component::parser::frame::<NomErr<'_>>(&si, true);
            let (rest, f2) = p(&bytes).map_err(|e| format!("parser::frame rejects the frame: {}", format!("{e:?}").chars().take(120).collect::<String>()))?;
            if !rest.is_empty() {
                return Err(format!("{} bytes left unconsumed", rest.len()));
            }
            f2.verify().map_err(|e| format!("parsed frame does not verify: {e}"))?;
            let b2 = enc::to_bytes(&f2).map_err(|e| format!("{e:?}"))?;
            if b2 != bytes {
                return Err("re-serialised frame differs".into());
            }
            if f2.decode() != a.samples {
                return Err("Decode of the parsed frame differs from the input".into());
            }
            let _ = f.count_bits();
            // the same subframes under a VARIABLE-blocking header: start-sample numbers of every
            // coded length up to 2^36 - 1 (the frame number stops at 31 bits, this field does not)
            let start: u64 = match num % 7 {
                0 => (1u64 << 31) - 1,
                1 => 1u64 << 31,
                2 => (1u64 << 32) + 5,
                3 => (1u64 << 35) + num as u64,
                4 => (1u64 << 36) - 1,
                5 => num as u64,
                _ => (num as u64) << 5,
            };
            let (mut h, subs) = f.into_parts();
            h.set_frame_offset(flacenc::component::FrameOffset::StartSample(start));
            let fv = flacenc::component::Frame::new(h, subs.into_iter()).map_err(|e| format!("variable-blocking: Frame::new refuses the parts of an encoded frame: {e}"))?;
            let bv = enc::to_bytes(&fv).map_err(|e| format!("variable-blocking: {e:?}"))?;
            let mut p = flacenc::component::parser::frame::<NomErr<'_>>(&si, true);
            let (rest, f3) = p(&bv).map_err(|e| format!("variable-blocking: parser::frame rejects the frame (start sample {start}): {}", format!("{e:?}").chars().take(120).collect::<String>()))?;
            if !rest.is_empty() {
                return Err(format!("variable-blocking: {} bytes left unconsumed", rest.len()));
            }
            f3.verify().map_err(|e| format!("variable-blocking: parsed frame does not verify: {e}"))?;
            if enc::to_bytes(&f3).map_err(|e| format!("{e:?}"))? != bv {
                return Err(format!("variable-blocking: re-serialised frame differs (start sample {start})"));
            }
            if f3.decode() != a.samples {
                return Err("variable-blocking: Decode of the parsed frame differs from the input".into());
            }
            Ok(())
        });
        out.evaluations += 1;
        out.distinct.insert(crate::prng::mix(num as u64) ^ 0xF15);
        out.count(&format!("framenum_bits_{}", 64 - (num as u64).leading_zeros()));
        match r {
            Ok(Ok(())) => {}
            Ok(Err(e)) => out.violation(format!("C15|framenum|{}", e.split(':').next().unwrap_or("?").chars().take(40).collect::<String>()), format!("frame number {num}: {e}"), rp()),
            Err(p) => out.violation(format!("C15|framenum-panic|{}", p.site()), p.short(), rp()),
        }
    });
    let fin = Finish {
        level: "exploration",
        rule: "for every emitted stream: parser::stream consumes all bytes, the tree verifies, re-serialises to identical bytes and Decode returns the input; the first frames are also parsed alone with parser::frame; the first frames' subframes are parsed alone with parser::subframe at their channel's width; 'metadata' adds 0-3 unknown metadata blocks (lengths 0..1000, one in eight at 65535..300000 bytes) and includes the empty stream; 'blocklen' round-trips a frame of every block length 1..=32767; 'constructed' round-trips streams assembled with the public constructors from fixed (order 0..=4) and LPC (order 1..=24) subframes at every partition order the block length allows, half of them with a predictor order equal to the length of the first partition, also checked against the reference decoder; 'framenum' round-trips single frames at every length class of the coded frame number (2^7, 2^11, 2^16, 2^21, 2^26, 2^31 each -2..+2) and random 1..31-bit numbers; distinct by case hash",
        assumptions: vec![],
        exhaustive: None,
        floors: vec![],
        extra: cov_extra(),
    };
    finish(ctx, out, fin)
}
