#!/bin/bash
# tools/seedall.sh [tier] [seed-dir...] : the prescribed procedure for every kept seeded change:
#   git -C /repo apply seeded/<id>/patch.diff ; ./check <property> <tier> ; git -C /repo checkout -- .
# Writes seeded/<id>/detection.<tier>.json (exit code, VIOLATION signatures) and prints one line per
# seed. Refuses to start when /repo has uncommitted changes. Nothing else may build from /repo
# while this runs.
tier=${1:-quick}; shift
cd /verif || exit 9
dirs=${@:-$(ls -d seeded/C*/)}
for d in $dirs; do
  d=${d%/}; id=$(basename $d); prop=${id%%-*}
  if ! git -C /repo diff --quiet; then echo "/repo has uncommitted changes; refusing"; exit 9; fi
  git -C /repo apply /verif/$d/patch.diff || { echo "$id patch-does-not-apply"; continue; }
  s=$(date +%s)
  ./check $prop $tier > /tmp/seedall.$id.log 2>&1; rc=$?
  e=$(date +%s)
  git -C /repo checkout -- . ; git -C /repo clean -fdq src
  python3 - "$d" "$id" "$prop" "$tier" "$rc" "$((e-s))" /tmp/seedall.$id.log <<'PY'
import json, sys, re
d, sid, prop, tier, rc, secs, log = sys.argv[1:8]
text = open(log, errors="replace").read()
sigs = re.findall(r"^  sig: (.*)$", text, re.M)
passes = re.findall(r"^--- pass (\w+) exit (\d+)", text, re.M)
out = {"seed": sid, "property": prop, "tier": tier, "command": f"git -C /repo apply seeded/{sid}/patch.diff; ./check {prop} {tier}; git -C /repo checkout -- .",
       "exit_code": int(rc), "fired": int(rc) == 1, "violation_signatures": sorted(set(sigs))[:12],
       "pass_exit_codes": {p: int(c) for p, c in passes}, "wall_s": int(secs),
       "repo_head": __import__("subprocess").run(["git", "-C", "/repo", "rev-parse", "--short", "HEAD"], capture_output=True, text=True).stdout.strip()}
json.dump(out, open(f"{d}/detection.{tier}.json", "w"), indent=1)
print(f"{sid} {prop} {tier} rc={rc} {'FIRED' if int(rc)==1 else 'SILENT'} {secs}s sigs={sorted(set(sigs))[:3]}")
PY
  rm -f /tmp/seedall.$id.log
done
