#!/usr/bin/env python3
# builds /verif/seeded/<id>/ for the round-9 seeds from /tmp/seed9/out/<P>/{Q,R}.patch etc.
import json, os, shutil, glob
props = {json.loads(l)['id']: json.loads(l)['title'] for l in open('/verif/properties.jsonl')}
M = {
 'C01-Q': ('src/rice.rs PrcBitTable::minimizer', 'fast path skips the lane mask when max_p == 14: Rice parameter 15 (the escape code) becomes selectable', 'default max_parameter and a residual whose best parameter is 15 or more (loud noise-like 20/24-bit content)', 'fired', ''),
 'C01-R': ('src/lpc.rs find_shift', 'final clamp replaced by a floor of the exponent: the shift can reach 16..29 and reads back negative in its 5-bit field', 'every LPC coefficient <= 0.25 at precision 15 with LPC still winning (weakly coloured low-level noise; silence with use_constant and use_fixed off)', 'fired', ''),
 'C02-Q': ('src/component/datatype.rs SampleRateSpec::from_freq', 'Hz arm tests freq <= 0x1_0000: 65536 Hz is coded as 0 Hz', 'sample rate exactly 65536', 'fired', ''),
 'C02-R': ('src/coding.rs encode_frame_impl + thread-local HEADER_SPECS', 'sample-size and sample-rate specs memoised per thread, keyed by the rate only', 'two encodes on one thread with the same rate and different bits per sample', 'fired', ''),
 'C03-Q': ('src/source.rs Context::md5_digest (memoised)', 'the digest is cached; fill_interleaved invalidates it, fill_le_bytes does not', 'md5_digest() asked for between byte fills on one Context (a caller-driven loop refreshing a provisional STREAMINFO)', 'silent', 'C03 only drove the library-driven encodes (one digest at the end): callerloop sub-workload'),
 'C03-R': ('src/bitsink.rs MemSink<u64>::write_bytes_aligned', 'word-at-a-time copy whose head length uses the bytes already in the word instead of the bytes missing', 'the stream emitted into MemSink<u64>: the MD5 starts two bytes into a word', 'fired', 'fired through the shared u64-sink emission of the stream driver (signature C01|u64-sink|...); C03 now compares the 42 STREAMINFO bytes of both sinks under its own signature'),
 'C05-Q': ('src/coding.rs encode_with_fixed_block_size (single-thread)', 'early return for len_hint == Some(0) skips the finalisation: all-zero MD5 instead of the MD5 of the empty input', 'an empty input from a source reporting a length hint of 0, single-thread', 'fired', ''),
 'C05-R': ('src/par.rs worker closure + coding::encode_constant_frame', 'multi-thread fast path for blocks constant in every channel never reads use_constant', 'a silent / DC block with use_constant = false in multi-thread mode', 'fired', ''),
 'C06-Q': ('src/par.rs encode_with_fixed_block_size', 'ParContext::new (spawns the MD5 thread) moved ahead of the fallible ParFrameBuf::new(..)?: on a refused block size the thread is dropped unjoined and panics on its disconnected channel', 'multithread and a block size that set_block_sizes accepts but FrameBuf::with_size refuses (0..=31)', 'silent', 'C06 only injected source failures: refused scenarios (fault-free source, block-size argument outside the domain; same kind in both modes, no thread left or panicking)'),
 'C06-R': ('src/par.rs feed_fixed_block_size', 'a block is numbered sample_count / block_size: after a short block mid-stream two blocks share a number and ParSink overwrites one', 'multithread and a source delivering a short block inside the stream', 'silent', 'C06 fault-free sources always filled their blocks: one fault-free scenario in five reads from a pipe-style source'),
 'C08-Q': ('src/component/parser.rs residual', 'tidied sanity check tests block_size < warmup_length instead of partition_len < warmup_length', 'a parsed residual whose predictor order exceeds the partition length with unequal Rice parameters', 'fired', ''),
 'C08-R': ('src/bitsink.rs MemSink<u64>::write_bytes_aligned', 'bulk path advances bitlength by words.len() << 6 after the iterator was drained: 64 bits per copied word lost', 'a blob of 32 bytes or more written at a word-aligned cursor of MemSink<u64>', 'fired', ''),
 'C09-Q': ('src/coding.rs select_order_and_encode_residual + encode_subframe', 'the exact re-count filter on the fixed candidate only in the ApproxEnt arm; BitCount trusted on code_bits', 'BitCount, restricted Rice parameter, a merged cost table just above 2^28', 'fired', ''),
 'C09-R': ('src/component/datatype.rs Residual::from_parts (wide fallback sum)', 'four u64 accumulators over chunks_exact(4); the remainder is never added', 'max_q * n >= 2^32, a block length not a multiple of 4 and the huge residuals in the last len % 4 samples', 'silent', 'C09 tailspike: cheap blocks of odd lengths with 1..3 full-scale samples at the very end / start under a restricted Rice parameter'),
 'C10-Q': ('src/lpc.rs LpcEstimator::weighted_lpc_from_auto_corr', 'thread-local corr_coefs only ever grown and the working order read from its length: the thread remembers the highest order analysed', 'an encode with lpc_order 12 followed by one with lpc_order 6 on one thread', 'fired', ''),
 'C10-R': ('src/arrayutils.rs SimdVec::resize', 'early return when the number of 16-lane vectors is unchanged also skips self.len = new_len', 'two fixed-LPC analyses on one thread with lengths rounding to the same vector count (1024 then 1018)', 'fired', ''),
 'C11-Q': ('src/bitsink.rs BitSink::write_bytes_aligned (default)', 'zero-byte runs forwarded through write_zeros in whole words, the cursor skips the whole run: run % 8 trailing zero bytes are never written', 'a user sink with only the required operations and a zero-byte run of 9 or more, not a multiple of 8', 'fired', ''),
 'C11-R': ('src/bitsink.rs MemSink<u8>::write_twoc override', 'byte-multiple widths appended with extend_from_slice without checking alignment', 'write_twoc with 8/16/../64 bits on a ByteSink holding 1..7 bits', 'fired', ''),
 'C14-Q': ('src/source.rs FrameBuf::fill_interleaved', 'over-long check compares per-channel counts (len / channels > size)', 'a multi-channel integer offer exceeding the capacity by fewer than `channels` values', 'silent', 'C14 tuple offers were whole inter-channel samples: a full block plus 1..channels-1 stray values (both paths must treat it alike)'),
 'C14-R': ('src/source.rs Context::fill_interleaved', 'each inter-channel sample packed into a 24-byte stack array; the zip stops when it is full', 'bytes_per_sample == 4 with 7 or 8 channels', 'silent', 'the 4-byte container was only driven at frame-buffer level: contexts of 25..32-bit samples in the fills sub-workload'),
 'C17-Q': ('src/component/datatype.rs StreamInfo::new', 'trailing ret.verify()? dropped as redundant: 25 bits per sample accepted', 'a declared sample width of exactly 25', 'fired', ''),
 'C17-R': ('src/source.rs impl Fill for FrameBuf', 'empty block is a no-op early return before filled_size is updated', 'non-empty fill, then empty fill, then encode on one buffer', 'fired', ''),
 'C18-Q': ('src/component/verify.rs Verify for QuantizedParameters', 'symmetric magnitude bound max|c| <= 2^(precision-1)', 'a coefficient exactly +2^(precision-1)', 'silent', 'the coefficient grid had i16 extremes and random values, never the exact two\'s-complement limits of the precision: +-2^(p-1), 2^(p-1)-1, -2^(p-1)-1 added'),
 'C18-R': ('src/component/datatype.rs SampleRateSpec::count_extra_bits', 'if tag < 0b1100 { 0 } else { 16 }: the 8-bit kHz immediate is counted as 16 bits', 'FrameHeader::new with a whole-kHz rate outside the table (12000, 64000)', 'fired', 'fired on a random rate; the FrameHeader grid now lists every rate class explicitly'),
}
final = {}
for f in glob.glob('/tmp/seed9/intake.*.log'):
    for line in open(f):
        t = line.strip().split(' | ')
        if len(t) >= 3:
            final[t[0]] = (t[2], t[3] if len(t) > 3 else '')
for sid, rec in M.items():
    p, l = sid.split('-')
    src = f'/tmp/seed9/out/{p}'
    d = f'/verif/seeded/{sid}'
    os.makedirs(d, exist_ok=True)
    shutil.copy(f'{src}/{l}.patch', f'{d}/patch.diff')
    shutil.copy(f'{src}/{l}_demo.rs', f'{d}/demo.rs')
    shutil.copy(f'{src}/{l}.txt', f'{d}/description.txt')
    site, change, needs, first, added = rec
    meta = {'id': sid, 'property': p, 'property_title': props[p], 'round': 9, 'site': site, 'change': change, 'needs_to_manifest': needs,
            'origin': 'written by a fresh sub-agent that was given the property text, a scratch worktree of /repo and the list of sites earlier rounds had used (nothing from /verif)',
            'confirmed': {'how': 'tools/seedverify.sh <worktree> patch.diff demo.rs in a scratch worktree of /repo (HEAD 1dfe8d1; every patch also applies to 59ba97d)',
                          'repository_suite_with_change': 'cargo test --workspace --no-fail-fast --offline: 163 passed', 'demo_with_change': 'fails', 'demo_without_change': 'passes', 'note': ''},
            'first_confrontation': first, 'strengthening': added,
            'scratch_run_of_committed_checks': {'command': 'tools/seedintake.sh (scratch worktree of /repo HEAD + snapshot of /verif HEAD before the round-9 strengthening), ./check %s quick' % p, 'result': final.get(sid, ('', ''))[0], 'signatures': final.get(sid, ('', ''))[1]}}
    json.dump(meta, open(f'{d}/meta.json', 'w'), indent=1)
os.makedirs('/verif/seeded/_notes_round9', exist_ok=True)
for f in glob.glob('/tmp/seed9/out/C*/notes.txt'):
    shutil.copy(f, '/verif/seeded/_notes_round9/%s.notes.txt' % f.split('/')[-2])
print(len(M), 'kept')
