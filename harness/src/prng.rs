//! SplitMix64 PRNG; every random choice in the harness derives from VERIF_SEED through this.

#[derive(Clone, Debug)]
pub struct Rng(pub u64);

pub fn mix(mut z: u64) -> u64 {
    z = z.wrapping_add(0x9E37_79B9_7F4A_7C15);
    z = (z ^ (z >> 30)).wrapping_mul(0xBF58_476D_1CE4_E5B9);
    z = (z ^ (z >> 27)).wrapping_mul(0x94D0_49BB_1331_11EB);
    z ^ (z >> 31)
}

/// Hash of a string (FNV-1a 64) - used for monitor tags and distinct-case keys.
pub fn hash_str(s: &str) -> u64 {
    let mut h: u64 = 0xcbf2_9ce4_8422_2325;
    for b in s.as_bytes() {
        h ^= u64::from(*b);
        h = h.wrapping_mul(0x0000_0100_0000_01B3);
    }
    h
}

pub fn hash_bytes(s: &[u8]) -> u64 {
    let mut h: u64 = 0xcbf2_9ce4_8422_2325;
    for b in s {
        h ^= u64::from(*b);
        h = h.wrapping_mul(0x0000_0100_0000_01B3);
    }
    mix(h)
}

pub fn hash_i32s(s: &[i32]) -> u64 {
    let mut h: u64 = 0xcbf2_9ce4_8422_2325;
    for v in s {
        h ^= *v as u32 as u64;
        h = h.wrapping_mul(0x0000_0100_0000_01B3);
    }
    mix(h)
}

impl Rng {
    /// PRNG for case `idx` of monitor `tag` under run seed `seed`.
    pub fn for_case(seed: u64, tag: &str, idx: u64) -> Self {
        Rng(mix(mix(seed) ^ mix(hash_str(tag)).rotate_left(17) ^ mix(idx).rotate_left(41)))
    }
    pub fn next_u64(&mut self) -> u64 {
        self.0 = self.0.wrapping_add(0x9E37_79B9_7F4A_7C15);
        let mut z = self.0;
        z = (z ^ (z >> 30)).wrapping_mul(0xBF58_476D_1CE4_E5B9);
        z = (z ^ (z >> 27)).wrapping_mul(0x94D0_49BB_1331_11EB);
        z ^ (z >> 31)
    }
    /// Uniform in 0..n (n>0).
    pub fn below(&mut self, n: u64) -> u64 {
        debug_assert!(n > 0);
        ((u128::from(self.next_u64()) * u128::from(n)) >> 64) as u64
    }
    pub fn usize_below(&mut self, n: usize) -> usize {
        self.below(n as u64) as usize
    }
    /// Uniform in lo..=hi.
    pub fn range(&mut self, lo: i64, hi: i64) -> i64 {
        debug_assert!(lo <= hi);
        let span = (hi - lo) as u64 + 1;
        if span == 0 {
            return self.next_u64() as i64;
        }
        lo + self.below(span) as i64
    }
    pub fn urange(&mut self, lo: usize, hi: usize) -> usize {
        self.range(lo as i64, hi as i64) as usize
    }
    pub fn chance(&mut self, num: u64, den: u64) -> bool {
        self.below(den) < num
    }
    pub fn flip(&mut self) -> bool {
        self.next_u64() & 1 == 1
    }
    pub fn pick<'a, T>(&mut self, xs: &'a [T]) -> &'a T {
        &xs[self.usize_below(xs.len())]
    }
    pub fn f64(&mut self) -> f64 {
        (self.next_u64() >> 11) as f64 / (1u64 << 53) as f64
    }
    /// Approximately Gaussian (sum of 4 uniforms), mean 0, sd ~1.
    pub fn gauss(&mut self) -> f64 {
        let s: f64 = (0..4).map(|_| self.f64()).sum();
        (s - 2.0) * 1.732
    }
    /// Laplacian, scale 1.
    pub fn laplace(&mut self) -> f64 {
        let u = self.f64() - 0.5;
        let a = 1.0 - 2.0 * u.abs();
        let l = -(a.max(1e-300)).ln();
        if u < 0.0 {
            -l
        } else {
            l
        }
    }
    pub fn fork(&mut self) -> Rng {
        Rng(mix(self.next_u64()))
    }
}
