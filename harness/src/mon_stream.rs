//! Stream-level observation shared by C01, C02, C03, C04, C08, C09, C13, C15 and their oracles.

use crate::bitmodel::{CountSink, UserSink};
use crate::common::{catch, Ctx, Outcome};
use crate::enc::{self, EncErr, SerErr};
use crate::gen::{self, Audio, ConfigOpts, FillMode, TestSource};
use crate::prng::{self, Rng};
use crate::refdec::{self, Class, Report, SubKind};
use flacenc::bitsink::{ByteSink, MemSink};
use flacenc::component::{BitRepr, Decode, Stream, SubFrame};
use flacenc::config;
use flacenc::error::Verify;
use serde_json::{json, Value};
use std::sync::Arc;

#[derive(Clone, Debug)]
pub struct Case {
    pub audio: Arc<Audio>,
    pub cfg: config::Encoder,
    pub block: usize,
    pub mode: FillMode,
    pub hint: bool,
}

impl Case {
    pub fn describe(&self) -> Value {
        json!({
            "channels": self.audio.channels,
            "bps": self.audio.bps,
            "rate": self.audio.rate,
            "len": self.audio.frames(),
            "signal": self.audio.recipe,
            "pcm_hash": format!("{:016x}", prng::hash_i32s(&self.audio.samples)),
            "block": self.block,
            "config_block_size_field": self.cfg.block_size,
            "fill": format!("{:?}", self.mode),
            "len_hint": self.hint,
            "config": gen::describe_config(&self.cfg),
        })
    }
    pub fn key(&self) -> u64 {
        prng::hash_str(&self.describe().to_string())
    }
}

#[derive(Clone, Debug)]
pub struct Limits {
    /// cap on interleaved sample count (len * channels)
    pub max_samples: usize,
    pub max_blocks: usize,
    pub max_block_size: usize,
    pub widths: Vec<usize>,
    pub channel_choices: Vec<usize>,
    pub opts: ConfigOpts,
}

impl Default for Limits {
    fn default() -> Self {
        Self {
            max_samples: 40_000,
            max_blocks: 3,
            max_block_size: 32767,
            widths: gen::WIDTHS.to_vec(),
            channel_choices: vec![1, 1, 1, 2, 2, 2, 2, 3, 4, 5, 6, 7, 8],
            opts: ConfigOpts::default(),
        }
    }
}

pub fn gen_case(rng: &mut Rng, lim: &Limits) -> Case {
    let bps = *rng.pick(&lim.widths);
    let channels = *rng.pick(&lim.channel_choices);
    let per_ch_cap = (lim.max_samples / channels).max(40);
    let max_block = lim.max_block_size.min(per_ch_cap.max(32));
    let block = gen::pick_block_size(rng, max_block);
    let max_blocks = lim.max_blocks.min((per_ch_cap / block).max(1));
    let len = gen::pick_len(rng, block, max_blocks).min(per_ch_cap);
    let rate = gen::pick_rate(rng);
    let audio = gen::gen_audio(rng, channels, bps, rate, len);
    let mut cfg = gen::gen_config(rng, &lim.opts);
    // the block-size ARGUMENT of the entry point is authoritative; in one case out of five the
    // configuration's own `block_size` field holds a different (valid) value
    cfg.block_size = if rng.chance(1, 5) { gen::pick_block_size(rng, 32767) } else { block };
    Case {
        audio: Arc::new(audio),
        cfg,
        block,
        // one source in eight chains inner sources: an empty block ahead of the data in every
        // second read (full blocks all the same, so every stream oracle applies unchanged)
        // and one in ten switches between integer and byte delivery from read to read
        mode: match (rng.flip(), rng.usize_below(40)) {
            (_, 0..=3) => FillMode::Mixed,
            (true, 4..=8) => FillMode::IntChained,
            (false, 4..=8) => FillMode::BytesChained,
            (true, _) => FillMode::Int,
            (false, _) => FillMode::Bytes,
        },
        hint: rng.flip(),
    }
}

pub struct Observed {
    pub stream: Stream,
    pub bytes: Vec<u8>,
    pub rep: Report,
    pub delivered: usize,
    pub reads: usize,
}

pub enum ObsErr {
    ConfigRejected(String),
    Enc(EncErr),
    Ser(SerErr, Stream),
}

/// Encodes through the stream-level entry point, serialises, runs refdec.
pub fn observe(case: &Case) -> Result<Observed, ObsErr> {
    let v = enc::verified(&case.cfg).map_err(ObsErr::ConfigRejected)?;
    let mut src = TestSource::new(Arc::clone(&case.audio), case.mode, case.hint);
    let stream = enc::encode_stream(&v, &mut src, case.block).map_err(ObsErr::Enc)?;
    let bytes = match enc::to_bytes(&stream) {
        Ok(b) => b,
        Err(e) => return Err(ObsErr::Ser(e, stream)),
    };
    let rep = refdec::decode_stream(&bytes);
    Ok(Observed {
        stream,
        bytes,
        rep,
        delivered: src.delivered,
        reads: src.reads,
    })
}

fn replay_of(ctx: &Ctx, sub: &str, idx: u64, case: &Case) -> Value {
    json!({"monitor": ctx.prop, "sub": sub, "index": idx, "seed": ctx.seed, "tier": ctx.tier.name(), "case": case.describe()})
}

/// Reports failures to even produce a stream for valid input (shared by all stream monitors).
pub fn report_obs_err(ctx: &Ctx, sub: &str, idx: u64, case: &Case, e: &ObsErr, out: &mut Outcome) {
    let rp = replay_of(ctx, sub, idx, case);
    match e {
        ObsErr::ConfigRejected(m) => out.violation(
            format!("{}|valid-config-rejected", ctx.prop),
            format!("a configuration inside the documented ranges was rejected: {m}"),
            rp,
        ),
        ObsErr::Enc(EncErr::Api(kind, m)) => out.violation(
            format!("{}|encode-error|{kind}", ctx.prop),
            format!("valid input was refused: {m}"),
            rp,
        ),
        ObsErr::Enc(EncErr::Panic(p)) => out.violation(
            format!("{}|encode-panic|{}", ctx.prop, p.site()),
            p.short(),
            rp,
        ),
        ObsErr::Ser(SerErr::TooBig(bits), _) => {
            // handled by C09 from the count; other monitors just note it
            out.count("streams_above_serialisation_cap");
            if ctx.prop == "C09" || ctx.prop == "C01" {
                out.violation(
                    format!("{}|stream-above-cap", ctx.prop),
                    format!("stream of {} raw bytes would serialise to {} bits", case.audio.raw_bytes(), bits),
                    rp,
                );
            }
        }
        ObsErr::Ser(SerErr::Api(m), _) => out.violation(
            format!("{}|write-error", ctx.prop),
            format!("Stream::write failed on an in-memory sink: {m}"),
            rp,
        ),
        ObsErr::Ser(SerErr::Panic(p), _) => out.violation(
            format!("{}|write-panic|{}", ctx.prop, p.site()),
            p.short(),
            rp,
        ),
    }
}

pub fn note_coverage(case: &Case, obs: &Observed, out: &mut Outcome) {
    out.count(&format!("width_{}", case.audio.bps));
    out.count(&format!("channels_{}", case.audio.channels));
    out.count(if case.cfg.multithread { "mode_multithread" } else { "mode_singlethread" });
    out.add("frames", obs.rep.frames.len() as u64);
    out.add("subframes_relying_on_32bit_wraparound", obs.rep.issues.iter().filter(|i| i.class == Class::Note).count() as u64);
    for f in &obs.rep.frames {
        out.count(&format!("assign_{:?}", f.header.assign).replace(['(', ')'], "_"));
        out.count(&format!("bs_code_{}", match f.header.bs_code { 6 => "8bit", 7 => "16bit", 1 => "192", 2..=5 => "576x", _ => "256x" }));
        out.count(&format!("sr_code_{}", match f.header.sr_code { 0 => "streaminfo", 12 => "kHz", 13 => "Hz", 14 => "daHz", _ => "named" }));
        if f.header.number_len > 1 {
            out.count("multibyte_frame_numbers");
        }
        for s in &f.subframes {
            let k = match s.kind {
                SubKind::Constant => "sub_constant",
                SubKind::Verbatim => "sub_verbatim",
                SubKind::Fixed(_) => "sub_fixed",
                SubKind::Lpc(_) => "sub_lpc",
            };
            out.count(k);
            if let Some(r) = &s.residual {
                let m = r.values.iter().map(|v| v.unsigned_abs()).max().unwrap_or(0);
                out.max("max_abs_residual", m);
                out.max("max_partition_order", u64::from(r.order));
            }
        }
        if f.header.block_size < 64 {
            out.count("frames_shorter_than_64");
        }
        if f.header.block_size < 16 {
            out.count("frames_shorter_than_16");
        }
    }
}

// ================================================================ oracles

pub fn claxon_decode(bytes: &[u8]) -> Result<(u32, u32, u32, Vec<i32>), String> {
    let r = catch(|| -> Result<(u32, u32, u32, Vec<i32>), String> {
        let mut reader = claxon::FlacReader::new(std::io::Cursor::new(bytes)).map_err(|e| format!("{e}"))?;
        let info = reader.streaminfo();
        let mut v = Vec::new();
        for s in reader.samples() {
            v.push(s.map_err(|e| format!("{e}"))?);
        }
        Ok((info.sample_rate, info.channels, info.bits_per_sample, v))
    });
    match r {
        Ok(x) => x,
        Err(p) => Err(format!("claxon panicked: {}", p.short())),
    }
}

/// C01: refdec accepts and returns exactly the input; claxon agrees.
pub fn oracle_c01(ctx: &Ctx, sub: &str, idx: u64, case: &Case, obs: &Observed, out: &mut Outcome) {
    let rp = || replay_of(ctx, sub, idx, case);
    let rep = &obs.rep;
    let a = &case.audio;
    if let Some(i) = rep.first(&[Class::Fatal]) {
        out.violation(format!("C01|undecodable|{}", i.clause), format!("independent decoder cannot decode: {} ({})", i.detail, i.clause), rp());
        return;
    }
    if let Some(i) = rep.first(&[Class::Integrity]) {
        out.violation(format!("C01|integrity|{}", i.clause), format!("independent decoder rejects: {}", i.detail), rp());
    }
    let inf = &rep.info;
    if inf.rate as usize != a.rate || inf.channels as usize != a.channels || inf.bps as usize != a.bps {
        out.violation("C01|format-fields", format!("decoded format rate={} ch={} bps={} differs from input rate={} ch={} bps={}", inf.rate, inf.channels, inf.bps, a.rate, a.channels, a.bps), rp());
    }
    if rep.pcm.len() != a.samples.len() {
        out.violation("C01|length", format!("decoded {} samples, input has {}", rep.pcm.len(), a.samples.len()), rp());
    } else if rep.pcm != a.samples {
        let pos = rep.pcm.iter().zip(a.samples.iter()).position(|(x, y)| x != y).unwrap();
        let t = pos / a.channels;
        let ch = pos % a.channels;
        // find frame / subframe kind
        let mut acc = 0usize;
        let mut kind = "?".to_string();
        for f in &rep.frames {
            if t < acc + f.header.block_size {
                kind = format!("{:?}/{:?}", f.header.assign, f.subframes[ch.min(f.subframes.len() - 1)].kind);
                break;
            }
            acc += f.header.block_size;
        }
        let kind_class: String = kind.chars().filter(|c| c.is_alphabetic() || *c == '/').collect();
        out.violation(
            format!("C01|samples-differ|{kind_class}"),
            format!("first difference at sample {t} channel {ch}: decoded {} input {} (frame kind {kind})", rep.pcm[pos], a.samples[pos]),
            rp(),
        );
    }
    // the same stream emitted through the word-based in-memory sink (MemSink<u64>) is the same
    // FLAC: if the bytes differ from the ByteSink's, they are decoded independently as well
    if idx % 2 == 0 || obs.bytes.len() < 20_000 {
        match enc::to_bytes_u64(&obs.stream) {
            Ok((len, b64)) => {
                out.count("streams_also_emitted_through_u64_sink");
                if len != obs.bytes.len() * 8 || b64 != obs.bytes {
                    let rep64 = refdec::decode_stream(&b64);
                    let why = rep64.first(&[Class::Fatal, Class::Integrity]).map(|i| i.clause.to_string()).unwrap_or_else(|| if rep64.pcm == a.samples { "decodes-but-bytes-differ".into() } else { "samples-differ".into() });
                    out.violation(format!("C01|u64-sink|{why}"), format!("the stream written into MemSink<u64> ({len} bits) differs from the one written into ByteSink ({} bits): {why}", obs.bytes.len() * 8), rp());
                }
            }
            Err(enc::SerErr::TooBig(_)) => {}
            Err(e) => out.violation("C01|u64-sink|write-failed", format!("{e:?}").chars().take(200).collect::<String>(), rp()),
        }
    }
    // second opinion
    match claxon_decode(&obs.bytes) {
        Ok((r, c, b, pcm)) => {
            out.count("claxon_decoded");
            if pcm != rep.pcm || r != inf.rate || c != inf.channels || b != inf.bps {
                out.inconclusive.push(format!("claxon and refdec disagree on an accepted stream (case {sub}#{idx})"));
            }
        }
        Err(e) => {
            if rep.issues.iter().all(|i| i.class == Class::Note) {
                out.inconclusive.push(format!("claxon rejects a stream refdec finds clean (case {sub}#{idx}): {e}"));
            } else {
                out.count("claxon_rejected_stream_with_refdec_issue");
            }
        }
    }
}

/// C02: strict well-formedness.
pub fn oracle_c02(ctx: &Ctx, sub: &str, idx: u64, case: &Case, obs: &Observed, out: &mut Outcome) {
    let rp = || replay_of(ctx, sub, idx, case);
    let rep = &obs.rep;
    let short_src = matches!(case.mode, FillMode::IntShort | FillMode::BytesShort);
    for i in &rep.issues {
        let relevant = match i.class {
            Class::Fatal | Class::Format => true,
            Class::Integrity => i.clause.starts_with("frame.crc"),
            Class::Bounds | Class::Note => false,
        };
        if relevant {
            // a source that delivers a short block although input remains (pipe style) gets a
            // short NON-final frame: its own signature (known finding, DESIGN 6.7)
            if short_src && i.clause == "frame.blocksize.fixed" {
                out.violation("C02|frame.blocksize.fixed|short-read-source", format!("frame {:?}: {} (the source returned a short read mid-stream: reads {:?})", i.frame, i.detail, obs.reads), rp());
            } else {
                out.violation(format!("C02|{}", i.clause), format!("frame {:?}: {}", i.frame, i.detail), rp());
            }
        }
    }
    if rep.fatal().is_some() {
        return;
    }
    if short_src {
        // the frame layout follows the reads; what can still be demanded: nothing lost, nothing
        // longer than the block size, fixed-blocksize bit
        let sum: usize = rep.frames.iter().map(|f| f.header.block_size).sum();
        if sum != case.audio.frames() {
            out.violation("C02|frame-count", format!("frames hold {sum} samples, the source delivered {}", case.audio.frames()), rp());
        }
        for (i, f) in rep.frames.iter().enumerate() {
            if f.header.variable {
                out.violation("C02|blocking-strategy", format!("frame {i} has the variable-blocksize bit set"), rp());
            }
            if f.header.block_size > case.block {
                out.violation("C02|block-size", format!("frame {i} holds {} samples, block size {}", f.header.block_size, case.block), rp());
            }
        }
        if rep.info.is_last != rep.meta.is_empty() {
            out.violation("C02|streaminfo.lastflag", format!("STREAMINFO last-block flag {} with {} following blocks", rep.info.is_last, rep.meta.len()), rp());
        }
        return;
    }
    if rep.info.is_last != rep.meta.is_empty() {
        out.violation("C02|streaminfo.lastflag", format!("STREAMINFO last-block flag {} with {} following blocks", rep.info.is_last, rep.meta.len()), rp());
    }
    let total = case.audio.frames();
    let expect_frames = (total + case.block - 1) / case.block;
    if rep.frames.len() != expect_frames {
        out.violation("C02|frame-count", format!("{} frames for {} samples at block size {}", rep.frames.len(), total, case.block), rp());
    }
    for (i, f) in rep.frames.iter().enumerate() {
        let h = &f.header;
        if h.variable {
            out.violation("C02|blocking-strategy", format!("frame {i} has the variable-blocksize bit set"), rp());
        }
        let expect = if i + 1 < rep.frames.len() { case.block } else { total.saturating_sub(i * case.block).min(case.block) };
        if h.block_size != expect {
            out.violation("C02|block-size", format!("frame {i} holds {} samples, expected {expect}", h.block_size), rp());
        }
        // codes must be the ones that agree with STREAMINFO: checked by refdec (rate/bps/channels)
        for s in &f.subframes {
            if s.wasted != 0 {
                out.count("wasted_bits_subframes");
            }
        }
    }
}

/// C03: STREAMINFO format fields, total samples, MD5.
pub fn oracle_c03(ctx: &Ctx, sub: &str, idx: u64, case: &Case, obs: &Observed, out: &mut Outcome) {
    let rp = || replay_of(ctx, sub, idx, case);
    let a = &case.audio;
    let inf = &obs.rep.info;
    if obs.rep.first(&[Class::Fatal]).is_some() && obs.bytes.len() < 42 {
        out.violation("C03|no-streaminfo", "stream has no STREAMINFO".to_string(), rp());
        return;
    }
    if inf.rate as usize != a.rate || inf.channels as usize != a.channels || inf.bps as usize != a.bps {
        out.violation("C03|format-fields", format!("STREAMINFO rate={} ch={} bps={} vs source rate={} ch={} bps={}", inf.rate, inf.channels, inf.bps, a.rate, a.channels, a.bps), rp());
    }
    if inf.total != obs.delivered as u64 {
        out.violation("C03|total-samples", format!("STREAMINFO total {} but the source handed over {} inter-channel samples", inf.total, obs.delivered), rp());
    }
    let want = refdec::md5_of_pcm(&a.samples, a.bps as u32);
    if inf.md5 != want {
        out.violation(format!("C03|md5|bps{}", a.bps), format!("STREAMINFO MD5 {:02x?} expected {:02x?}", inf.md5, want), rp());
    }
    let si = obs.stream.stream_info();
    if si.md5_digest() != &inf.md5 || si.total_samples() as u64 != inf.total || si.sample_rate() != inf.rate as usize || si.channels() != inf.channels as usize || si.bits_per_sample() != inf.bps as usize {
        out.violation("C03|accessors-vs-bytes", "StreamInfo accessors disagree with the serialised STREAMINFO".to_string(), rp());
    }
    // the STREAMINFO block is the same 42 bytes whichever in-memory sink the stream is written to
    // (the MD5 starts at byte 26, i.e. not on a word boundary of the word-based sink)
    if obs.bytes.len() >= 42 && obs.bytes.len() < 200_000 {
        if let Ok((_, b64)) = enc::to_bytes_u64(&obs.stream) {
            out.count("streaminfo_also_read_from_the_u64_sink");
            if b64.len() < 42 || b64[..42] != obs.bytes[..42] {
                out.violation("C03|u64-sink|streaminfo-differs", format!("the first 42 bytes written into MemSink<u64> differ from those written into ByteSink: {:02x?} vs {:02x?}", &b64[..42.min(b64.len())], &obs.bytes[..42]), rp());
            }
        }
    }
}

/// C04: block-size and frame-size bounds.
pub fn oracle_c04(ctx: &Ctx, sub: &str, idx: u64, case: &Case, obs: &Observed, out: &mut Outcome) {
    let rp = || replay_of(ctx, sub, idx, case);
    let rep = &obs.rep;
    if rep.frames.is_empty() {
        out.count("streams_without_frames");
        return;
    }
    let inf = &rep.info;
    let nf = rep.frames.len();
    let last_short = rep.frames[nf - 1].header.block_size;
    if inf.max_block as usize != case.block {
        out.violation("C04|max-block", format!("max block {} but requested block size {}", inf.max_block, case.block), rp());
    }
    if inf.min_block < 16 {
        out.violation("C04|min-block-lt-16", format!("min block {} (< 16, invalid per RFC 9639 8.2); final block has {} samples", inf.min_block, last_short), rp());
    }
    if inf.min_block > inf.max_block {
        out.violation("C04|min-block-gt-max", format!("min block {} > max block {}", inf.min_block, inf.max_block), rp());
    }
    for (i, f) in rep.frames.iter().enumerate() {
        if i + 1 < nf && (f.header.block_size as u32) < inf.min_block {
            let sig = if matches!(case.mode, FillMode::IntShort | FillMode::BytesShort) { "C04|min-block-gt-frame|short-read-source" } else { "C04|min-block-gt-frame" };
            out.violation(sig, format!("min block {} > block size {} of non-final frame {i}", inf.min_block, f.header.block_size), rp());
            break;
        }
    }
    let lens: Vec<usize> = rep.frames.iter().map(|f| f.len).collect();
    let mn = *lens.iter().min().unwrap();
    let mx = *lens.iter().max().unwrap();
    if inf.min_frame as usize != mn {
        out.violation("C04|min-frame", format!("min frame size {} but the smallest frame has {} bytes", inf.min_frame, mn), rp());
    }
    if inf.max_frame as usize != mx {
        out.violation("C04|max-frame", format!("max frame size {} but the largest frame has {} bytes", inf.max_frame, mx), rp());
    }
    out.max("largest_frame_bytes", mx as u64);
    if last_short < 16 {
        out.count("final_block_shorter_than_16");
    }
}

/// C09: no frame larger than verbatim + 2 bytes per channel.
pub fn frame_bound_bytes(header_bits: usize, channels: usize, bps: usize, n: usize) -> usize {
    (header_bits + channels * (8 + bps * n) + 7) / 8 + 2 + 2 * channels
}

pub fn oracle_c09(ctx: &Ctx, sub: &str, idx: u64, case: &Case, obs: &Observed, out: &mut Outcome) {
    let rp = || replay_of(ctx, sub, idx, case);
    let a = &case.audio;
    for (i, f) in obs.rep.frames.iter().enumerate() {
        let bound = frame_bound_bytes(f.header.header_len * 8, a.channels, a.bps, f.header.block_size);
        out.max("frame_len_permille_of_bound", (f.len * 1000 / bound) as u64);
        if f.len > bound {
            let kinds: Vec<String> = f.subframes.iter().map(|s| format!("{:?}", s.kind)).collect();
            let kc: String = kinds.join(",").chars().filter(|c| c.is_alphabetic() || *c == ',').collect();
            out.violation(
                format!("C09|frame-larger-than-verbatim|{kc}"),
                format!("frame {i}: {} bytes > bound {} (n={}, {} ch x {} bit, subframes {:?})", f.len, bound, f.header.block_size, a.channels, a.bps, kinds),
                rp(),
            );
            break;
        }
    }
    let raw = a.raw_bytes();
    let overhead: usize = 42 + obs.rep.frames.iter().map(|f| f.header.header_len + 2 + 3 * a.channels + 1).sum::<usize>();
    if obs.bytes.len() > raw + overhead {
        out.violation("C09|stream-larger-than-raw", format!("stream {} bytes > raw {} + overhead {}", obs.bytes.len(), raw, overhead), rp());
    }
}

fn zigzag(v: i64) -> u64 {
    ((v << 1) ^ (v >> 63)) as u64
}

/// Brute-force optimum of the encoder's search space; returns (min bits incl. the 6-bit header,
/// best order).
pub fn rice_optimum(values: &[i64], n: usize, pred_order: usize, max_p: usize) -> (u64, usize) {
    let min_part = 64usize.max(pred_order);
    let zz: Vec<u64> = values.iter().map(|v| zigzag(*v)).collect();
    let mut best = (u64::MAX, 0usize);
    let mut o = 0usize;
    while o <= 15 {
        let parts = 1usize << o;
        if n % parts != 0 || (n >> o) < min_part {
            break;
        }
        let plen = n >> o;
        let mut total: u64 = 6;
        for part in 0..parts {
            let (s, e) = if part == 0 { (0, plen - pred_order) } else { (part * plen - pred_order, (part + 1) * plen - pred_order) };
            let seg = &zz[s..e];
            let mut bp = u64::MAX;
            for p in 0..=max_p {
                let c: u64 = seg.iter().map(|u| u >> p).sum::<u64>() + (seg.len() as u64) * (p as u64 + 1) + 4;
                bp = bp.min(c);
            }
            total += bp;
        }
        if total < best.0 {
            best = (total, o);
        }
        o += 1;
    }
    best
}

/// C13 over every Rice-coded residual of the observed stream.
pub fn oracle_c13(ctx: &Ctx, sub: &str, idx: u64, case: &Case, obs: &Observed, out: &mut Outcome) {
    let rp = || replay_of(ctx, sub, idx, case);
    let max_p = case.cfg.subframe_coding.prc.max_parameter;
    for (fi, f) in obs.rep.frames.iter().enumerate() {
        let n = f.header.block_size;
        for (ch, s) in f.subframes.iter().enumerate() {
            let Some(r) = &s.residual else { continue };
            let pred = match s.kind {
                SubKind::Fixed(o) | SubKind::Lpc(o) => o as usize,
                _ => 0,
            };
            out.evaluations += 1;
            let maxabs = r.values.iter().map(|v| v.unsigned_abs()).max().unwrap_or(0);
            out.count(&format!("partition_order_{}", r.order));
            for (p, esc, _) in &r.params {
                out.count(&format!("rice_param_{}{}", p, if *esc { "_escape" } else { "" }));
                if usize::from(*p) > max_p && !*esc {
                    out.violation("C13|parameter-above-max", format!("frame {fi} ch {ch}: Rice parameter {p} > configured maximum {max_p}"), rp());
                }
            }
            if maxabs > (1 << 15) {
                out.count("residuals_with_abs_gt_2^15");
            }
            if maxabs > (1 << 20) {
                out.count("residuals_with_abs_gt_2^20");
            }
            out.distinct.insert(prng::hash_str(&format!("{}|{}|{}|{}|{}", prng::hash_bytes(&r.values.iter().flat_map(|v| v.to_le_bytes()).collect::<Vec<u8>>()), n, pred, max_p, r.order)));
            let (opt, opt_order) = rice_optimum(&r.values, n, pred, max_p);
            let actual = r.bits as u64;
            if opt >= (1u64 << 28) {
                out.count("residuals_with_optimum_above_2^28_skipped");
                continue;
            }
            if actual > opt {
                out.violation(
                    format!("C13|suboptimal|{}", if matches!(s.kind, SubKind::Fixed(_)) { "fixed" } else { "lpc" }),
                    format!("frame {fi} ch {ch} ({:?}, n={n}, max_p={max_p}): emitted {actual} bits at order {} params {:?}.., optimum {opt} bits at order {opt_order}; max|e|={maxabs}", s.kind, r.order, &r.params[..r.params.len().min(4)]),
                    rp(),
                );
            } else if actual < opt {
                out.violation("C13|oracle-inconsistent", format!("frame {fi} ch {ch}: emitted {actual} bits is below the brute-force optimum {opt} (search-space mismatch)"), rp());
            }
        }
    }
}

/// Recursive count_bits == bits written, for everything reachable from a stream.
pub fn oracle_c08_stream(ctx: &Ctx, sub: &str, idx: u64, desc: &Value, stream: &Stream, out: &mut Outcome) {
    let rp = || json!({"monitor": ctx.prop, "sub": sub, "index": idx, "seed": ctx.seed, "tier": ctx.tier.name(), "case": desc});
    check_bits(ctx, "Stream", stream, out, &rp);
    check_bits(ctx, "StreamInfo", stream.stream_info(), out, &rp);
    for i in 0..stream.frame_count() {
        let f = stream.frame(i).unwrap();
        check_bits(ctx, "Frame", f, out, &rp);
        // every frame is a whole number of bytes
        if f.count_bits() % 8 != 0 {
            out.violation("C08|frame-not-byte-aligned", format!("frame {i} reports {} bits", f.count_bits()), rp());
        }
        // before/after precompute
        let mut g = f.clone();
        let before = g.count_bits();
        let wb = enc::to_bytes(&g);
        let r = catch(|| g.precompute_bitstream());
        if let Err(p) = r {
            out.violation(format!("C08|precompute-panic|{}", p.site()), p.short(), rp());
        } else {
            let after = g.count_bits();
            let wa = enc::to_bytes(&g);
            if before != after {
                out.violation("C08|precompute-changes-count", format!("frame {i}: {before} bits before, {after} after precompute"), rp());
            }
            if let (Ok(x), Ok(y)) = (&wb, &wa) {
                if x != y {
                    out.violation("C08|precompute-changes-bytes", format!("frame {i}: bytes differ after precompute"), rp());
                }
            }
        }
        check_bits(ctx, "FrameHeader", f.header(), out, &rp);
        check_bits(ctx, "ChannelAssignment", f.header().channel_assignment(), out, &rp);
        for ch in 0..f.subframe_count() {
            let sf = f.subframe(ch).unwrap();
            check_bits(ctx, "SubFrame", sf, out, &rp);
            match sf {
                SubFrame::Constant(c) => check_bits(ctx, "Constant", c, out, &rp),
                SubFrame::Verbatim(c) => check_bits(ctx, "Verbatim", c, out, &rp),
                SubFrame::FixedLpc(c) => {
                    check_bits(ctx, "FixedLpc", c, out, &rp);
                    check_bits(ctx, "Residual", c.residual(), out, &rp);
                }
                SubFrame::Lpc(c) => {
                    check_bits(ctx, "Lpc", c, out, &rp);
                    check_bits(ctx, "Residual", c.residual(), out, &rp);
                }
            }
        }
    }
}

/// count_bits() == MemSink<u8> len == MemSink<u64> len == user sink len, identical bits.
pub fn check_bits<T: BitRepr>(ctx: &Ctx, what: &str, c: &T, out: &mut Outcome, rp: &dyn Fn() -> Value) {
    let counted = match catch(|| c.count_bits()) {
        Ok(b) => b,
        Err(p) => {
            out.violation(format!("{}|count_bits-panic|{what}|{}", ctx.prop, p.site()), p.short(), rp());
            return;
        }
    };
    out.evaluations += 1;
    out.count(&format!("bitcount_checked_{what}"));
    // a first pass into a counting sink (no memory): a count that lies about a gigantic component
    // must not make the harness materialise it three times
    let real = catch(|| {
        let mut s = CountSink::default();
        c.write(&mut s).map(|()| s.len)
    });
    if let Ok(Ok(len)) = real {
        if len != counted as u64 {
            out.violation(format!("{}|count-mismatch|{what}", ctx.prop), format!("{what}: count_bits()={counted} but {len} bits written (counting sink)"), rp());
            if len > enc::SERIALISE_CAP_BITS as u64 {
                return;
            }
        }
    }
    if counted > enc::SERIALISE_CAP_BITS {
        // count only
        let r = catch(|| {
            let mut s = CountSink::default();
            c.write(&mut s).map(|()| s.len)
        });
        match r {
            Ok(Ok(len)) => {
                if len != counted as u64 {
                    out.violation(format!("{}|count-mismatch|{what}", ctx.prop), format!("{what}: count_bits()={counted} but {len} bits written (counting sink)"), rp());
                }
            }
            Ok(Err(e)) => out.violation(format!("{}|write-error|{what}", ctx.prop), format!("{e}"), rp()),
            Err(p) => out.violation(format!("{}|write-panic|{what}|{}", ctx.prop, p.site()), p.short(), rp()),
        }
        return;
    }
    let r8 = catch(|| {
        let mut s = ByteSink::new();
        c.write(&mut s).map(|()| (s.len(), s.into_inner()))
    });
    let r64 = catch(|| {
        let mut s = MemSink::<u64>::new();
        c.write(&mut s).map(|()| {
            let len = s.len();
            let mut b = vec![0u8; (len + 7) / 8];
            s.write_to_byte_slice(&mut b);
            (len, b)
        })
    });
    let ru = catch(|| {
        let mut s = UserSink::new();
        c.write(&mut s).map(|()| s)
    });
    let mut lens: Vec<(&str, usize)> = vec![];
    let mut bytes8: Option<Vec<u8>> = None;
    match r8 {
        Ok(Ok((len, b))) => {
            lens.push(("MemSink<u8>", len));
            bytes8 = Some(b);
        }
        Ok(Err(e)) => out.violation(format!("{}|write-error|{what}", ctx.prop), format!("MemSink<u8>: {e}"), rp()),
        Err(p) => out.violation(format!("{}|write-panic|{what}|{}", ctx.prop, p.site()), format!("MemSink<u8>: {}", p.short()), rp()),
    }
    match r64 {
        Ok(Ok((len, b))) => {
            lens.push(("MemSink<u64>", len));
            if let Some(b8) = &bytes8 {
                if *b8 != b {
                    out.violation(format!("{}|sinks-differ|{what}", ctx.prop), format!("{what}: MemSink<u8> and MemSink<u64> hold different bits"), rp());
                }
            }
        }
        Ok(Err(e)) => out.violation(format!("{}|write-error|{what}", ctx.prop), format!("MemSink<u64>: {e}"), rp()),
        Err(p) => out.violation(format!("{}|write-panic|{what}|{}", ctx.prop, p.site()), format!("MemSink<u64>: {}", p.short()), rp()),
    }
    match ru {
        Ok(Ok(s)) => {
            lens.push(("user sink", s.bits.len));
            if let Some(b8) = &bytes8 {
                if *b8 != s.bits.bytes {
                    out.violation(format!("{}|user-sink-differs|{what}", ctx.prop), format!("{what}: a sink implementing only the required methods received different bits"), rp());
                }
            }
        }
        Ok(Err(e)) => out.violation(format!("{}|write-error|{what}", ctx.prop), format!("user sink: {e}"), rp()),
        Err(p) => out.violation(format!("{}|write-panic|{what}|{}", ctx.prop, p.site()), format!("user sink: {}", p.short()), rp()),
    }
    for (name, len) in lens {
        if len != counted {
            out.violation(format!("{}|count-mismatch|{what}", ctx.prop), format!("{what}: count_bits()={counted} but {len} bits written into {name}"), rp());
            break;
        }
    }
}

type NomErr<'a> = nom::error::Error<&'a [u8]>;

/// C15: parser inverts writer, for the stream and for each frame on its own.
pub fn oracle_c15(ctx: &Ctx, sub: &str, idx: u64, case: &Case, obs: &Observed, out: &mut Outcome) {
    let rp = || replay_of(ctx, sub, idx, case);
    let bytes = &obs.bytes;
    let parsed = catch(|| flacenc::component::parser::stream::<NomErr<'_>>(bytes).map(|(rest, s)| (rest.len(), s)).map_err(|e| format!("{e:?}").chars().take(200).collect::<String>()));
    let (rest, s2) = match parsed {
        Ok(Ok(x)) => x,
        Ok(Err(e)) => {
            let class = if case.audio.frames() == 0 { "empty-stream" } else { "stream" };
            out.violation(format!("C15|parser-rejects-own-output|{class}"), format!("parser::stream returned {e}"), rp());
            return;
        }
        Err(p) => {
            out.violation(format!("C15|parser-panic|{}", p.site()), p.short(), rp());
            return;
        }
    };
    if rest != 0 {
        out.violation("C15|unconsumed-input", format!("{rest} bytes left unconsumed"), rp());
    }
    match catch(|| s2.verify()) {
        Ok(Ok(())) => {}
        Ok(Err(e)) => out.violation("C15|parsed-tree-does-not-verify", format!("{e}"), rp()),
        Err(p) => out.violation(format!("C15|verify-panic|{}", p.site()), p.short(), rp()),
    }
    match enc::to_bytes(&s2) {
        Ok(b2) => {
            if &b2 != bytes {
                let pos = b2.iter().zip(bytes.iter()).position(|(x, y)| x != y).unwrap_or(b2.len().min(bytes.len()));
                out.violation("C15|reserialisation-differs", format!("re-serialised stream differs at byte {pos} (lengths {} vs {})", b2.len(), bytes.len()), rp());
            }
        }
        Err(e) => out.violation("C15|reserialisation-fails", format!("{e:?}").chars().take(200).collect::<String>(), rp()),
    }
    let dec = catch(|| {
        let mut pcm: Vec<i32> = Vec::new();
        for i in 0..s2.frame_count() {
            pcm.extend(s2.frame(i).unwrap().decode());
        }
        pcm
    });
    match dec {
        Ok(pcm) => {
            if pcm != case.audio.samples {
                let pos = pcm.iter().zip(case.audio.samples.iter()).position(|(x, y)| x != y);
                out.violation("C15|decode-differs", format!("Decode of the parsed stream differs from the input (first at {pos:?}; lengths {} vs {})", pcm.len(), case.audio.samples.len()), rp());
            }
        }
        Err(p) => out.violation(format!("C15|decode-panic|{}", p.site()), p.short(), rp()),
    }
    // frames on their own
    let si = obs.stream.stream_info().clone();
    for (i, f) in obs.rep.frames.iter().enumerate().take(4) {
        let fb = &bytes[f.offset..f.offset + f.len];
        // every second frame the parser OBJECT has been used before, the way a streaming reader
        // uses it: on a prefix of the frame (incomplete) and on a copy whose last byte is damaged
        // (every subframe is read before the CRC-16 refuses it); the object must carry nothing over
        let mut bad = fb.to_vec();
        if let Some(l) = bad.last_mut() {
            *l ^= 0x01;
        }
        let r = catch(|| {
            let mut p = flacenc::component::parser::frame::<NomErr<'_>>(&si, true);
            if i % 2 == 1 {
                let _ = p(&fb[..fb.len() / 2]);
                let _ = p(&fb[..fb.len() - 1]);
                let _ = p(&bad);
            }
            p(fb).map(|(rest, fr)| (rest.len(), fr)).map_err(|e| format!("{e:?}").chars().take(200).collect::<String>())
        });
        match r {
            Ok(Ok((rest, fr))) => {
                out.count("frames_parsed_alone");
                if rest != 0 {
                    out.violation("C15|frame-unconsumed", format!("frame {i}: {rest} bytes left"), rp());
                }
                if let Ok(b2) = enc::to_bytes(&fr) {
                    if b2 != fb {
                        out.violation("C15|frame-reserialisation-differs", format!("frame {i}"), rp());
                    }
                }
            }
            Ok(Err(e)) => out.violation("C15|frame-rejected", format!("frame {i}: {e}"), rp()),
            Err(p) => out.violation(format!("C15|frame-parser-panic|{}", p.site()), p.short(), rp()),
        }
    }
    // subframes on their own: serialise each subframe of the first frames, parse it with the
    // subframe parser at the width its channel has in that frame (side channels: +1), and demand
    // identical bits, a tree that verifies and the samples refdec decoded for that subframe
    type BitErr<'a> = nom::error::Error<(&'a [u8], usize)>;
    for i in 0..obs.stream.frame_count().min(3) {
        let f = obs.stream.frame(i).unwrap();
        let n = f.header().block_size();
        for ch in 0..f.subframe_count() {
            let sf = f.subframe(ch).unwrap();
            let bps = case.audio.bps + f.header().channel_assignment().bits_per_sample_offset(ch);
            let bits = sf.count_bits();
            let Ok(sb) = enc::to_bytes(sf) else { continue };
            let mut padded = sb.clone();
            padded.extend_from_slice(&[0u8; 8]);
            let r = catch(|| {
                let mut p = flacenc::component::parser::subframe::<BitErr<'_>>(n, bps);
                if ch % 2 == 1 {
                    // a parser object that has been used before (on a prefix of the subframe)
                    let _ = p((&sb[..sb.len() / 2], 0));
                }
                p((&padded[..], 0)).map(|((rest, off), x)| ((padded.len() - rest.len()) * 8 + off, x)).map_err(|e| format!("{e:?}").chars().take(160).collect::<String>())
            });
            match r {
                Ok(Ok((consumed, sf2))) => {
                    out.count("subframes_parsed_alone");
                    if consumed != bits {
                        out.violation("C15|subframe-consumed-bits", format!("frame {i} ch {ch}: the subframe parser consumed {consumed} bits of a {bits}-bit subframe"), rp());
                    }
                    if let Ok(Err(e)) = catch(|| sf2.verify()) {
                        out.violation("C15|parsed-subframe-does-not-verify", format!("frame {i} ch {ch}: {e}"), rp());
                    }
                    match enc::to_bytes(&sf2) {
                        Ok(b2) if b2 == sb => {}
                        _ => out.violation("C15|subframe-reserialisation-differs", format!("frame {i} ch {ch}"), rp()),
                    }
                    if let Some(fr) = obs.rep.frames.get(i) {
                        if let (Some(sr), Ok(dec)) = (fr.subframes.get(ch), catch(|| sf2.decode())) {
                            if dec.iter().map(|x| i64::from(*x)).collect::<Vec<i64>>() != sr.samples {
                                out.violation("C15|subframe-decode-differs", format!("frame {i} ch {ch}: Decode of the parsed subframe differs from the independent decoder's samples"), rp());
                            }
                        }
                    }
                }
                Ok(Err(e)) => out.violation("C15|subframe-rejected", format!("frame {i} ch {ch} ({bps} bit, n={n}): {e}"), rp()),
                Err(p) => out.violation(format!("C15|subframe-parser-panic|{}", p.site()), p.short(), rp()),
            }
        }
    }
}
