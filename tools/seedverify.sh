#!/bin/bash
# tools/seedverify.sh <worktree> <patch> <demo.rs>
# Confirms a seeded change independently: (1) with the patch the repository's own suite passes,
# (2) the demonstration fails with the patch, (3) the demonstration passes without it.
# Prints one line: SEEDVERIFY suite=<pass|fail> demo_with=<fail|pass> demo_without=<pass|fail>
wt=$1; patch=$(readlink -f "$2"); demo=$(readlink -f "$3")
cd "$wt" || exit 9
export CARGO_NET_OFFLINE=true CARGO_TERM_COLOR=never
git checkout -- . && git clean -fdq tests 2>/dev/null
git apply "$patch" || { echo "SEEDVERIFY patch-does-not-apply"; exit 9; }
cargo test --workspace --no-fail-fast --offline > /tmp/seedverify.$$.suite.log 2>&1 && suite=pass || suite=fail
n=$(grep -E "^test result:" /tmp/seedverify.$$.suite.log | head -1)
mkdir -p tests; cp "$demo" tests/seed_demo.rs
cargo test --offline --features decode --test seed_demo > /tmp/seedverify.$$.with.log 2>&1 && with=pass || with=fail
grep -q "error\[E\|could not compile" /tmp/seedverify.$$.with.log && with=compile-error
git checkout -- . 
cargo test --offline --features decode --test seed_demo > /tmp/seedverify.$$.without.log 2>&1 && without=pass || without=fail
rm -rf tests/seed_demo.rs; git clean -fdq tests 2>/dev/null; rmdir tests 2>/dev/null
echo "SEEDVERIFY suite=$suite ($n) demo_with=$with demo_without=$without"
rm -f /tmp/seedverify.$$.*
[ "$suite" = pass ] && [ "$with" = fail ] && [ "$without" = pass ]
