#!/bin/bash
# tools/seedlanes.sh <lanes> <tier> <seed-id>...
# Official-equivalent run of kept seeds in parallel: every lane has its own scratch worktree of
# /repo's HEAD and its own snapshot of /verif's HEAD (git archive; tools/seedrun.sh), applies the
# seed's patch there, runs the registered command of the seed's property (./check <P> <tier>) and
# writes seeded/<id>/detection.<tier>.json. Same procedure as tools/seedall.sh (which applies the
# patch to /repo itself, one seed at a time) without blocking /repo for an hour; the "command"
# field of the detection file says which of the two produced it.
lanes=$1; tier=$2; shift 2
ids=("$@")
head=$(git -C /repo rev-parse --short HEAD); vhead=$(git -C /verif rev-parse --short HEAD)
run_lane() {
  local lane=$1; shift
  rm -rf /tmp/verif-snap-L$lane; mkdir -p /tmp/verif-snap-L$lane; git -C /verif archive HEAD | tar -x -C /tmp/verif-snap-L$lane
  for id in "$@"; do
    p=${id%%-*}
    s=$(date +%s)
    r=$(VERIF_SRC=/tmp/verif-snap-L$lane SEEDRUN_DIR=/tmp/seedrun-L$lane /verif/tools/seedrun.sh $id /verif/seeded/$id/patch.diff $tier $p 2>&1 | tail -1)
    e=$(date +%s)
    python3 - "$id" "$p" "$tier" "$((e-s))" "/tmp/seedrun-L$lane/out/$id.$p.log" "$head" "$vhead" "$r" <<'PY'
import json, sys, re
sid, prop, tier, secs, log, head, vhead, res = sys.argv[1:9]
text = open(log, errors="replace").read()
sigs = re.findall(r"^  sig: (.*)$", text, re.M)
passes = re.findall(r"^--- pass (\w+) exit (\d+)", text, re.M)
fired = f"FIRED:[ {prop} ]" in res
rc = 1 if fired else (0 if f"SILENT:[ {prop} ]" in res else 3)
out = {"seed": sid, "property": prop, "tier": tier,
       "command": f"tools/seedlanes.sh: scratch worktree of /repo {head} + seeded/{sid}/patch.diff, snapshot of /verif {vhead}; ./check {prop} {tier}",
       "exit_code": rc, "fired": fired, "violation_signatures": sorted(set(sigs))[:12],
       "pass_exit_codes": {p: int(c) for p, c in passes}, "wall_s": int(secs), "repo_head": head, "verif_head": vhead}
json.dump(out, open(f"/verif/seeded/{sid}/detection.{tier}.json", "w"), indent=1)
print(f"{sid} {prop} {tier} rc={rc} {'FIRED' if fired else 'SILENT-OR-OTHER'} {secs}s sigs={sorted(set(sigs))[:3]}")
PY
  done
  git -C /repo worktree remove --force /tmp/seedrun-L$lane/repo 2>/dev/null; rm -rf /tmp/seedrun-L$lane /tmp/verif-snap-L$lane
}
for ((l=0; l<lanes; l++)); do
  mine=()
  for ((i=l; i<${#ids[@]}; i+=lanes)); do mine+=("${ids[$i]}"); done
  run_lane $l "${mine[@]}" &
done
wait
