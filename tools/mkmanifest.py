#!/usr/bin/env python3
"""Generates /verif/MANIFEST.json from the table below (single source of truth)."""
import json, sys, os

CLAIMED = {
 # id: (level, technique, level text, level note, design ref)
 "C01": ("exploration", "runtime monitoring: independent strict decoder (refdec) + claxon as oracle over generated workloads; hook coverage counters",
         "Every stream emitted for thousands (quick) to hundreds of thousands (thorough) of generated inputs x configurations x thread modes is decoded by an independent RFC 9639 decoder written in the harness and compared sample by sample with the input; dedicated workloads drive the side-channel widths, the 64-bit LPC residual path (confirmed by a hook counter), short final blocks, streams of >1024 / >65536 frames, blocks of 256-768 KiB raw, pipe-style sources and the frame-level entry point; every sixth case is observed right after failed writes on the same thread; an in-process watchdog turns a call that never returns into a violation (state rule, not a deadline). Held on the executions observed, not a proof.",
         "Trusts refdec (unit-tested on hand-built frames, cross-checked by claxon on every stream); md-5 crate for the digest primitive.", "DESIGN.md 2/C01"),
 "C03": ("exploration", "runtime monitoring: STREAMINFO of every emitted stream vs instrumented source + own MD5 serialisation",
         "STREAMINFO fields of every observed stream are compared with the source's format, the sample count the instrumented source handed over and an MD5 the harness computes from its own serialisation, across integer/byte fill, with/without length hint, 1/many threads; the 36-bit total-samples field is exercised with totals around 2^32..2^36-1 through the setter (every tier) and with real streams of more than 2^32 samples from a generating source (thorough).",
         "md-5 crate supplies the compression function only.", "DESIGN.md 2/C03"),
 "C04": ("exploration", "runtime monitoring: STREAMINFO bounds vs frames recovered by the independent decoder; enumerated length residues",
         "Block-size and frame-size bounds of STREAMINFO are compared with the frames refdec finds in the stream, for an enumerated grid of block sizes x every length residue x full-block counts plus the common workload (incl. streams beyond 1024/65536 frames with late extremes, frames of up to ~786 kB, configurations whose block_size field differs from the block-size argument).",
         "Frame boundaries are those found by refdec.", "DESIGN.md 2/C04"),
 "C09": ("exploration", "runtime monitoring: frame byte lengths vs verbatim bound on hostile loud/heavy-tailed workloads",
         "The byte length of every emitted frame is compared with the verbatim bound; the workload concentrates on loud 16/20/24-bit, heavy-tailed, alternating and anti-correlated content with restricted Rice parameters and every order-selection mode; frames are size-checked through count_bits() before anything is serialised; 'wrap32' blocks are built so that the Rice quotient sum of a candidate is k*2^32+delta (a size bookkeeping that wraps at 2^32 would emit a 512 MiB frame).",
         "Frame boundaries from refdec; count_bits() is itself checked by C08.", "DESIGN.md 2/C09"),
 "C13": ("exploration", "runtime monitoring: brute-force Rice optimum vs parameters recovered from emitted bytes",
         "For every FIXED/LPC residual the independent decoder recovers (values, partition order, parameters, coded size), a brute-force search over the encoder's search space computes the optimum in u64 and the emitted size must equal it (when below 2^28); workloads: tone + graded/switching noise, loud content, smooth blocks with a near-Nyquist full-scale burst (8/12-bit: parameters above the sample width), odd and 64..127-sample blocks.",
         "Residuals and sizes are those refdec recovers.", "DESIGN.md 2/C13"),
 "C15": ("exploration", "runtime monitoring: parser/Decode round trip of every emitted stream and frame",
         "Every emitted stream (all widths, side channels, explicit size/rate codes, extra metadata blocks, the empty stream) is parsed with the crate's parser; the tree must consume all input, verify, re-serialise identically and decode to the input; frames and subframes are also parsed on their own (subframes at their channel's width); single frames at every length class of the coded frame number and of every block length 1..=32767; metadata blocks up to 300 kB; streams assembled with the public constructors from fixed/LPC subframes at every partition order (down to one-sample partitions, predictor order up to and equal to the first partition's length), also cross-checked by the reference decoder.",
         "none beyond the harness", "DESIGN.md 2/C15"),

 "C02": ("exploration", "runtime monitoring: strict RFC 9639 validator (refdec) over enumerated header code spaces and generated streams",
         "Block lengths 1..=32767 and sample rates 1..=96000 are enumerated completely through the real frame-level encoder, frame numbers through the encoder for [0,2^16)+class boundaries and through FrameHeader::write for a stride sweep (quick) or all 2^31 values (thorough); every frame/stream is validated by refdec in strict mode (sync, reserved bits/codes, canonical numbers, CRCs, padding, subframe limits, Rice rules, block-size/STREAMINFO agreement, no trailing bytes).",
         "refdec is the harness's reading of RFC 9639 plus the literal wording of C02.", "DESIGN.md 2/C02"),
 "C05": ("exploration", "runtime monitoring: schedule perturbation at hook points + offline trace checker (exactly-once, ordering, ownership) + byte comparison, in supervised child processes",
         "Each scenario runs one multi-thread encode per supervised child with a hook callback that injects seeded delays at every channel send/recv, buffer lock and thread start/exit and records a totally ordered event log; bytes(single)==bytes(multi)==bytes(frame-wise)==bytes(repeat) and the log must satisfy T1 buffer ownership, T2 frame numbering/exactly-once, T3 stop tokens, T4 hasher FIFO, T5 all helpers exited. Scenarios include more than 65536 frames and pipe-style sources with short reads. Evidence reports distinct interleavings and runs with out-of-order completion. ThreadSanitizer and Miri passes (thorough) add data-race/UB/deadlock/leak detection on reduced workloads.",
         "Schedules are sampled, not enumerated; TSan only sees synchronisation it intercepts (std is rebuilt with -Zbuild-std).", "DESIGN.md 2/C05"),
 "C06": ("fault_enumeration", "runtime monitoring: enumerated source faults x worker counts x schedule policies in supervised children; /proc-state deadlock detection; event-log thread-leak check",
         "Every fault position (read error at read k for k in 0..=F; out-of-range sample at first/middle/last position of block k) for F in {1,2,3,5,8,12} is enumerated and crossed with worker counts and schedule policies; each call must return (deadlock decided from /proc task states, never a deadline), no thread may panic, the error kind must equal single-thread's (also with several faults: errors are reported in stream order), and no helper thread may survive the call (event log + /proc/self/task).",
         "A livelock would be reported as inconclusive (watchdog); schedules are sampled.", "DESIGN.md 2/C06"),
 "C07": ("exploration", "runtime monitoring: independent range predicate vs verify() + probe-corpus encodes of every accepted configuration",
         "Each field at min-1/min/max/max+1/0/usize::MAX (floats: -0, -eps, 0, tiny, 1, 1+eps, inf, NaN), all pairs of such boundary values (thorough) and random assignments: an independent restatement of the documented ranges must equal verify()/into_verified(); accepted configurations encode a 12-input probe corpus without panic and losslessly.",
         "The independent predicate is transcribed from the documentation.", "DESIGN.md 2/C07"),
 "C08": ("exploration", "runtime monitoring: count_bits() vs bits written into three sink types for every reachable component",
         "Every component reachable from encoder output, parser output and public constructors is written into MemSink<u8>, MemSink<u64> and a user sink; lengths must equal count_bits() and bits must be identical; frames also before/after precompute; constructed residuals straddle the SIMD/scalar quotient-sum switch (confirmed by hook counters) and sums above 2^32 (counting sink; real 512 MiB sinks in thorough); components only the parser can produce (foreign Rice methods, crafted frames) and streams with added metadata blocks are included; every write is preceded by a counting-sink pass so that a grossly wrong count is reported instead of exhausting memory.",
         "Components above 64 MiB are checked with a counting sink plus the harness's own size model.", "DESIGN.md 2/C08"),
 "C10": ("exploration", "runtime monitoring: call histories on one long-lived thread vs each call alone on a fresh thread",
         "Histories of 5-40 mixed calls (stream encode to both sink types, frame-level encode, parse+re-serialise; shrinking/growing block sizes, channel/width/LPC/Rice/window changes incl. alphas closer than 2^-16, single and multi thread) run on one thread; every result must equal the same call made alone on a freshly spawned thread; histories contain calls that fail part-way (failing sink, unserialisable header) and runs of 70-130 distinct block lengths on one thread.",
         "A fresh OS thread has fresh thread-locals.", "DESIGN.md 2/C10"),
 "C11": ("exploration", "runtime monitoring: bit-string reference model checked after every sink operation; exhaustive offset x width x type grid",
         "Both in-memory sinks are compared with an ideal MSB-first bit-string model after every operation (len, as_slice incl. zero tail, write_to_byte_slice, to_bitstring, into_inner): exhaustive over start offset 0..=63 x operand type x n in 0..=width x {msbs,lsbs} x 4 values, plus write/write_twoc at every width, zero runs, alignment, aligned byte slices; random histories of 1-200 operations; a user sink implementing only the required methods must receive the same bits for every component of generated streams.",
         "write_twoc is exercised on its documented domain (1..=T::BITS).", "DESIGN.md 2/C11"),
 "C12": ("fault_enumeration", "runtime monitoring: sink fault injected at every operation index of a write",
         "A fault-free pass counts the N sink operations of a write; then every k in 0..N (dense up to 1500-2500, strided beyond) is injected into streams (single/multi-thread = precomputed frames, with/without metadata), frames in both forms, headers, subframes, residuals and STREAMINFO; each fault must come back as OutputError::Sink(k) without panic and the accepted bits must be a prefix of the fault-free bits; every sweep is repeated with a sink that already holds 3 bits (alignment steps are then real), and after a fault the same component is written again and must give the fault-free bits.",
         "The sink implements only the required trait methods.", "DESIGN.md 2/C12"),
 "C14": ("exploration", "runtime monitoring: integer vs byte fill compared through buffer views, context state and emitted bytes",
         "Channels 1..=8 x bytes-per-sample 1..=4 x capacities {32,33,64,257,4096} x fill lengths (enumerated for small capacities) incl. refilling a full buffer with shorter blocks: buffer contents (seen through verbatim-only frames), Context md5/total/frame number and emitted streams (both thread modes) must be identical for fill_interleaved and fill_le_bytes; the (FrameBuf, Context) pair is driven with sequences containing refused (too long) and empty fills and FrameBuf::resize steps, after each of which both delivery paths must have left the pair in the same state.",
         "4-byte samples only at frame-buffer level.", "DESIGN.md 2/C14"),
 "C16": ("fault_enumeration", "runtime monitoring: exhaustive bit-flip / burst / byte-XOR / truncation corruption of emitted streams + random inputs into the parser",
         "Every single-bit flip of the frame region of 10-40 small emitted streams, every 2..8-bit burst pattern at every bit offset, every XOR byte at every byte, every truncation, plus 10^5-10^7 random inputs/splices and valid frames whose coded frame/sample number is replaced by an arbitrary 1..7-byte code, whose block-size / sample-rate / channel / sample-size codes are replaced by arbitrary (also reserved) codes with matching extra header bytes (0x00, 0xFF.., random), all with both CRCs recomputed, and structured STREAMINFO edits: the parser must not panic, and an accepted altered stream must decode to the original audio.",
         "Release-profile arithmetic; the debug-profile pass (thorough) adds overflow checks.", "DESIGN.md 2/C16"),
 "C17": ("exploration", "runtime monitoring: enumerated boundary/wrap-around argument grid executed in supervised children",
         "The argument grid of the property (0, min-1, min, max, max+1, 2^8+k, 2^16+k, 2^32+k, usize::MAX per argument of every entry point, both thread modes) is enumerated; each call runs in a supervised child; outside the supported domain the outcome must be Err - never Ok, panic, hang or abort; fills after FrameBuf::resize follow the same capacity rule; ragged slices (not in the property's list) are observed, not judged.",
         "Supported domain transcribed from the documentation; in-between widths may error or encode losslessly.", "DESIGN.md 2/C17"),
 "C18": ("exploration", "runtime monitoring: hostile constructor arguments; accepted components must verify, write count_bits() bits and parse back identically",
         "Tens of thousands (quick) to millions (thorough) of consistent, boundary and inconsistent argument tuples for every public constructor, each in a supervised child: no panic in constructor or verify(); Ok implies verify(), panic-free writes of exactly count_bits() bits into three sink types, and a parser round trip with identical Debug rendering and bytes; a third of the scenarios run right after failed writes on the thread; Rice quotients at the 32/64-bit code boundaries, block sizes around 2^32/2^63/usize::MAX, frame/sample numbers of every coded length.",
         "One recorded known finding (StreamInfo::new sentinel bounds).", "DESIGN.md 2/C18"),
 "C19": ("exploration", "runtime monitoring: TOML round trip and key-deletion oracle against a transcribed default table",
         "Random configurations over everything TOML can carry: serialise/parse equality field by field, 1-6 deletion documents per configuration checked against the documented defaults, and verify() agreement before/after; a third of the workload is repeated with FLACENC_WORKERS set in the process (serialisation, parsing and defaults must not depend on the environment).",
         "Defaults transcribed from the doc comments.", "DESIGN.md 2/C19"),
 "C20": ("exploration", "runtime monitoring: differential digests of 9 (quick) / all 32 (thorough) feature-set builds over a fixed corpus",
         "A digest binary is built with the four feature sets of the project's CI matrix and with each optional feature (log, par, serde, decode, experimental) alone; the thorough tier builds every one of the 32 subsets of those five features; the per-case hashes of a 300 (quick) / 3000 (thorough) case corpus must be identical across the builds and with the harness's own computation; the corpus includes streams beyond 1024 frames and pipe-style sources with short reads.",
         "simd-nightly, mimalloc and __export_sigen are not among the features the property names and are not built.", "DESIGN.md 2/C20"),
}

# additions of round 7 (appended to the level text of the property; DESIGN.md 6.2 "Round 7")
ROUND7 = {
 "C01": " Round 7: frames on / next to every block-size code class (sizeclass); every stream is also emitted through MemSink<u64> and decoded independently if those bytes differ.",
 "C02": " Round 7: metadata chains of 0..=6 added blocks (last-block flags, order, types, lengths, audio offset); sizeclass frames; pipe-style sources (short reads mid-stream) reproduce the known finding C02|frame.blocksize.fixed|short-read-source on every run while all other clauses stay judged.",
 "C03": " Round 7: length hints that disagree with the delivery (partially read / exhausted library MemSource, biased hints) and byte containers wider than the sample width (refused = fine, emitted = judged).",
 "C04": " Round 7: block-size arguments outside 32..=32767 (refused = fine, emitted = judged); pipe-style sources reproduce the known finding C04|min-block-gt-frame|short-read-source.",
 "C05": " Round 7: 17 override strings incl. usize::MAX, 2^63, 2^32, 1025 (the worker count is clamped since fix 1fea44b).",
 "C06": " Round 7: 'env' scenarios - 0-2 faults with the worker count taken from FLACENC_WORKERS (zero, unparsable, unservable values).",
 "C07": " Round 7: worker counts 1025 / usize::MAX/2+1 / usize::MAX, block sizes on the frame header's code classes, and a full-block probe for block sizes above 1200.",
 "C10": " Round 7: a monitor process that dies of an allocation failure whose request (>= 2 GiB) came from inside the library is a violation (allocation watcher, DESIGN 6.6).",
 "C15": " Round 7: streams assembled with Stream::add_frame only (STREAMINFO as add_frame derived it, minimum block size below 16 after a short last block).",
 "C17": " Round 7: invalid stream-level arguments with empty / 1 / 5-sample sources with and without a length hint; empty frame buffers; frame encode after FrameBuf::resize beyond the domain; Context without channels.",
 "C18": " Round 7: StreamInfo setters at the field boundaries (16-bit block sizes, 24-bit frame sizes, 36-bit total); constructed metadata blocks inside a stream through the crate's parser.",
 "C19": " Round 7: documents parsed straight into error::Verified<config::Encoder> (toml::Value::try_into, serde_json) must be accepted exactly when verification accepts the in-memory value.",
 "C20": " Round 7: corpus cases with the library's MemSource over a sample vector holding a stray value.",
}

ROUND8 = {
 "C01": " Round 8: sources that chain inner sources (empty block ahead of the data) and sources that switch between integer and byte delivery inside one stream in the common generator; stereo signals whose channel relation changes inside the signal.",
 "C02": " Round 8: chained and mixed-delivery sources (common generator).",
 "C03": " Round 8: mixed integer/byte delivery in both thread modes; a packet-oriented source whose over-long offers are refused and retried must leave no trace in total or MD5.",
 "C05": " Round 8: 'manyworkers' scenarios with 129..1024 workers (configuration or environment) and enough frames for every buffer to be recycled.",
 "C06": " Round 8: injected read failures carry every SourceError flavour (from_unknown, by_reason, from_io_error of kinds Interrupted / WouldBlock / UnexpectedEof / TimedOut).",
 "C08": " Round 8: 'built' - streams assembled with the public constructors (LPC coefficient vectors with zero taps included) counted against the bits written, as constructed and as parsed back.",
 "C09": " Round 8: stereo signals whose channel relation changes inside a block (identical / independent loud noise / inverted pieces).",
 "C10": " Round 8: 'oneknob' - the same single-block input twice on one thread under configurations that differ in exactly one field (every field in turn), stream and frame level.",
 "C11": " Round 8: frames written into the user sink, MemSink<u8> and MemSink<u64> that already hold 1..7 bits, serialised on the fly and from a precomputed bitstream: one bit sequence.",
 "C14": " Round 8: 'bigblocks' (48Ki..256Ki interleaved samples per block, 2-8 channels, both thread modes, stated total checked) and stream pairs from pipe-style sources in both thread modes.",
 "C15": " Round 8: constructed streams hold LPC coefficient vectors with zero taps.",
 "C17": " Round 8: one out-of-range sample at every position of blocks of 100 / 191 samples and around the vector boundaries of longer ones, frame and stream level, under configurations without predictors too; frame-level encodes with a StreamInfo deserialised from a document (fix 59ba97d).",
 "C18": " Round 8: constructor arguments handed out by the crate's parser (foreign residuals / subframes with 5-bit Rice parameters above 14; fix 1dfe8d1); Frame::new with a single odd subframe at a random channel; Lpc::new with zero taps.",
 "C19": " Round 8: 'alphabits' - window parameters uniform over the f32 bit patterns of [0, 1]; index 0 reproduces the known finding C19|roundtrip-differs|alpha-bits=0x15ae43fd on every run.",
}

ROUND10 = {
 "C03": " Rounds 10-11: 'hashlag' - multi-thread encodes of cheap blocks with the MD5 helper thread (or the feeder) slowed at the hook and block counts on both sides of its 16-slot queue; integer slices handed over at every element offset 0..=3.",
 "C06": " Round 11: 'stall' - a fault-free source that pauses 2.5-11 s (thorough: up to 61 s) mid-stream in the multi-thread run (helper threads that give up waiting leave blocks without an encoder).",
 "C12": " Round 11: constructed FixedLpc subframes of every order 0..=4 at 8..25 bits (warm-up beyond one 64-bit word).",
 "C14": " Round 11: integer slices handed over at every element offset 0..=3 of their allocation (4-byte but not 8/16-byte aligned).",
 "C15": " Round 11: the subframes of each encoded frame also under a variable-blocking header with 31..36-bit start samples; every second frame parsed by a parser object that has already been handed a prefix and a damaged copy of the frame.",
 "C16": " Rounds 10-11: metadata blocks of every type tag 0..=127 with STREAMINFO-shaped and other payloads and every bit flip of such a metadata region; frames of FIXED subframes coded with 5-bit Rice parameters up to 30 and remainders near 2^28 behind valid CRCs (parser only; overflow panics surface in the chk pass); 16 (quick) / 60 (thorough) base streams instead of the 7 a generator slip had limited both tiers to.",
 "C17": " Round 11: hashing contexts declared with a sample width of 0 bits (fix ad8ab2b).",
 "C18": " Round 11: Verbatim::new with short vectors over the exact limits of the width in every order; frames parsed back by a parser object that has been used before.",
}

TODO_REASON = "monitor not built yet in this round (work in progress; will be claimed once its check exists)"

ALL = ["C%02d" % i for i in range(1, 21)]

def main():
    extra = {}
    p = os.path.join(os.path.dirname(__file__), "manifest_extra.json")
    if os.path.exists(p):
        extra = json.load(open(p))
    claimed = dict(CLAIMED)
    for k, v in extra.get("claimed", {}).items():
        claimed[k] = tuple(v)
    checks = []
    def passes(pid):
        q = [] if pid == "C20" else ["chk"]
        t = list(q)
        if pid in ("C01", "C07"):
            q.append("exp")
        if pid in ("C01", "C05", "C07", "C09", "C10", "C13", "C15"):
            t.append("exp")
        if pid in ("C05", "C06"):
            q.append("miri")
        if pid in ("C01", "C05", "C06", "C10", "C11", "C12", "C14", "C16"):
            t.append("miri")
        if pid in ("C03", "C05", "C06"):
            t.append("tsan")
        if pid in ("C01", "C05", "C06", "C11", "C14", "C16"):
            t.append("asan")
        if pid == "C16":
            t.append("fuzz")
        return q, t
    NAMES = {"chk": "chk = the same monitor re-run in a release build with integer-overflow checks and debug assertions on",
             "exp": "exp = the same monitor re-run in a build with the library's `experimental` feature compiled in, where the configuration generator also draws the direct-MSE and IRLS-MAE estimators (accepted by verification only in such a build); it runs the quick workload in both tiers",
             "miri": "miri = tiny workloads with the same oracles under the Miri interpreter (UB, data races, deadlock, leaked threads; one seeded schedule per shard)",
             "tsan": "tsan = the quick workload under ThreadSanitizer (-Zbuild-std)",
             "asan": "asan = the quick workload under AddressSanitizer/LeakSanitizer",
             "fuzz": "fuzz = libFuzzer+ASan on parser::stream/verify/Decode/write seeded with emitted streams"}
    for pid in ALL:
        if pid not in claimed:
            continue
        level, technique, text, note, ref = claimed[pid]
        text += ROUND7.get(pid, "")
        text += ROUND8.get(pid, "")
        text += ROUND10.get(pid, "")
        q, t = passes(pid)
        if t:
            technique += "; sanitizer passes: quick [" + ", ".join(q) + "], thorough [" + ", ".join(t) + "]"
            text += " Sanitizer passes merged into the verdict and the evidence (coverage.sanitizer_passes): " + "; ".join(NAMES[x] for x in t) + " (quick tier runs: " + (", ".join(q) or "none") + "). DESIGN.md 6.1."
        checks.append({
            "property_id": pid,
            "quick_cmd": f"./check {pid} quick",
            "thorough_cmd": f"./check {pid} thorough",
            "evidence_file": f"/verif/evidence/{pid}.json",
            "replay_cmd_template": "./check replay {path}",
            "engine": "fvmon",
            "level_claimed": {"category": level, "text": text, "design_ref": ref},
            "level_note": note,
            "technique": technique,
        })
    na = [{"property_id": pid, "reason": extra.get("na", {}).get(pid, TODO_REASON)} for pid in ALL if pid not in claimed]
    m = {
        "version": 1,
        "setup_cmd": "./check build",
        "hooks": {
            "guard": "--cfg flacenc_verif",
            "enable": "RUSTFLAGS=\"--cfg flacenc_verif\" cargo build --offline --release (set by ./check); the harness depends on /repo by path, so every check rebuilds from /repo's working tree",
            "baseline_off_cmd": "cd /repo && cargo test --workspace --no-fail-fast --offline",
            "source_commits": extra.get("hook_commits", []),
            "add_only": True,
        },
        "engines": [{
            "name": "fvmon",
            "path": "/verif/harness",
            "serves_properties": [c["property_id"] for c in checks],
            "kind_free_text": "Rust harness: workload generators, independent FLAC decoder (refdec), bit-string sink model, schedule-perturbing hook callback + event-log trace checker, /proc-based supervisor, per-property monitors; failed-write poisoning between cases; sanitizer passes (chk = release + overflow checks + debug assertions, Miri mini workloads, ThreadSanitizer, AddressSanitizer, libFuzzer) orchestrated by ./check and tools/sanpass.py",
        }],
        "checks": checks,
        "not_applicable": na,
        "notes": "Technique family: runtime monitoring and sanitizers. Verdicts are three-valued: exit 0 held on what was observed, exit 1 + VIOLATION line, exit 2 INCONCLUSIVE (coverage floor missed / watchdog / oracle disagreement). Known findings: /verif/known_findings.txt.",
    }
    json.dump(m, open("/verif/MANIFEST.json", "w"), indent=1)
    print("claimed:", [c["property_id"] for c in checks])
    print("not_applicable:", [n["property_id"] for n in na])

main()
