#!/usr/bin/env python3
"""Generates /verif/MANIFEST.json from the table below (single source of truth)."""
import json, sys, os

CLAIMED = {
 # id: (level, technique, level text, level note, design ref)
 "C01": ("exploration", "runtime monitoring: independent strict decoder (refdec) + claxon as oracle over generated workloads; hook coverage counters",
         "Every stream emitted for thousands (quick) to hundreds of thousands (thorough) of generated inputs x configurations x thread modes is decoded by an independent RFC 9639 decoder written in the harness and compared sample by sample with the input; dedicated workloads drive the side-channel widths, the 64-bit LPC residual path (confirmed by a hook counter), short final blocks and the frame-level entry point. Held on the executions observed, not a proof.",
         "Trusts refdec (unit-tested on hand-built frames, cross-checked by claxon on every stream); md-5 crate for the digest primitive.", "DESIGN.md 2/C01"),
 "C03": ("exploration", "runtime monitoring: STREAMINFO of every emitted stream vs instrumented source + own MD5 serialisation",
         "STREAMINFO fields of every observed stream are compared with the source's format, the sample count the instrumented source handed over and an MD5 the harness computes from its own serialisation, across integer/byte fill, with/without length hint, 1/many threads.",
         "md-5 crate supplies the compression function only.", "DESIGN.md 2/C03"),
 "C04": ("exploration", "runtime monitoring: STREAMINFO bounds vs frames recovered by the independent decoder; enumerated length residues",
         "Block-size and frame-size bounds of STREAMINFO are compared with the frames refdec finds in the stream, for an enumerated grid of block sizes x every length residue x full-block counts plus the common workload.",
         "Frame boundaries are those found by refdec.", "DESIGN.md 2/C04"),
 "C09": ("exploration", "runtime monitoring: frame byte lengths vs verbatim bound on hostile loud/heavy-tailed workloads",
         "The byte length of every emitted frame is compared with the verbatim bound; the workload concentrates on loud 16/20/24-bit, heavy-tailed, alternating and anti-correlated content with restricted Rice parameters and every order-selection mode; frames are size-checked through count_bits() before anything is serialised.",
         "Frame boundaries from refdec; count_bits() is itself checked by C08.", "DESIGN.md 2/C09"),
 "C13": ("exploration", "runtime monitoring: brute-force Rice optimum vs parameters recovered from emitted bytes",
         "For every FIXED/LPC residual the independent decoder recovers (values, partition order, parameters, coded size), a brute-force search over the encoder's search space computes the optimum in u64 and the emitted size must equal it (when below 2^28).",
         "Residuals and sizes are those refdec recovers.", "DESIGN.md 2/C13"),
 "C15": ("exploration", "runtime monitoring: parser/Decode round trip of every emitted stream and frame",
         "Every emitted stream (all widths, side channels, explicit size/rate codes, extra metadata blocks, the empty stream) is parsed with the crate's parser; the tree must consume all input, verify, re-serialise identically and decode to the input; frames are also parsed on their own.",
         "none beyond the harness", "DESIGN.md 2/C15"),
}

TODO_REASON = "monitor not built yet in this round (work in progress; will be claimed once its check exists)"

ALL = ["C%02d" % i for i in range(1, 21)]

def main():
    extra = {}
    p = os.path.join(os.path.dirname(__file__), "manifest_extra.json")
    if os.path.exists(p):
        extra = json.load(open(p))
    claimed = dict(CLAIMED)
    for k, v in extra.get("claimed", {}).items():
        claimed[k] = tuple(v)
    checks = []
    for pid in ALL:
        if pid not in claimed:
            continue
        level, technique, text, note, ref = claimed[pid]
        checks.append({
            "property_id": pid,
            "quick_cmd": f"./check {pid} quick",
            "thorough_cmd": f"./check {pid} thorough",
            "evidence_file": f"/verif/evidence/{pid}.json",
            "replay_cmd_template": "./check replay {path}",
            "engine": "fvmon",
            "level_claimed": {"category": level, "text": text, "design_ref": ref},
            "level_note": note,
            "technique": technique,
        })
    na = [{"property_id": pid, "reason": extra.get("na", {}).get(pid, TODO_REASON)} for pid in ALL if pid not in claimed]
    m = {
        "version": 1,
        "setup_cmd": "./check build",
        "hooks": {
            "guard": "--cfg flacenc_verif",
            "enable": "RUSTFLAGS=\"--cfg flacenc_verif\" cargo build --offline --release (set by ./check); the harness depends on /repo by path, so every check rebuilds from /repo's working tree",
            "baseline_off_cmd": "cd /repo && cargo test --workspace --no-fail-fast --offline",
            "source_commits": extra.get("hook_commits", []),
            "add_only": True,
        },
        "engines": [{
            "name": "fvmon",
            "path": "/verif/harness",
            "serves_properties": [c["property_id"] for c in checks],
            "kind_free_text": "Rust harness: workload generators, independent FLAC decoder (refdec), bit-string sink model, schedule-perturbing hook callback + event-log trace checker, /proc-based supervisor, per-property monitors; sanitizer passes (Miri, TSan, debug-profile overflow checks) driven by scripts under /verif/checks",
        }],
        "checks": checks,
        "not_applicable": na,
        "notes": "Technique family: runtime monitoring and sanitizers. Verdicts are three-valued: exit 0 held on what was observed, exit 1 + VIOLATION line, exit 2 INCONCLUSIVE (coverage floor missed / watchdog / oracle disagreement). Known findings: /verif/known_findings.txt.",
    }
    json.dump(m, open("/verif/MANIFEST.json", "w"), indent=1)
    print("claimed:", [c["property_id"] for c in checks])
    print("not_applicable:", [n["property_id"] for n in na])

main()
