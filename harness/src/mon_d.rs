//! C16: the parser never panics and never accepts an altered frame.

use crate::common::{catch, finish, run_cases, Ctx, Finish, Outcome};
use crate::enc;
use crate::gen::{self, Audio, ConfigOpts, FillMode, TestSource};
use crate::prng::{self, Rng};
use crate::refdec;
use flacenc::component::{Decode, Stream};
use flacenc::config;
use serde_json::json;
use std::sync::Arc;

type NomErr<'a> = nom::error::Error<&'a [u8]>;

#[derive(Clone)]
pub struct Base {
    pub bytes: Vec<u8>,
    pub audio_offset: usize,
    pub pcm: Vec<i32>,
    pub desc: String,
    /// (offset, len) of each frame
    pub frames: Vec<(usize, usize)>,
    /// (header length incl. CRC-8, length of the coded frame number) of each frame
    pub hdr: Vec<(usize, usize)>,
}

/// Small emitted streams: one per subframe type / width / stereo mode.
pub fn base_streams(seed: u64, count: usize) -> Vec<Base> {
    let mut v = vec![];
    let mut i = 0u64;
    while v.len() < count && i < 1000 {
        let mut rng = Rng::for_case(seed, "C16.base", i);
        i += 1;
        // the recipe follows the ATTEMPT, not the number of streams kept so far: a recipe whose
        // stream is refused (too long, undecodable) must not be tried again and again (until round
        // 10 it was - recipe 7 never fits 1400 bytes, so only 7 base streams ever existed)
        let k = (i - 1) as usize;
        let bps = gen::WIDTHS[k % 5];
        let channels = [1usize, 2, 2, 3][k % 4];
        let block = [32usize, 64, 96, 192, 128][(k / 2) % 5];
        let frames = 2 + k % 3;
        let len = block * frames - if k % 2 == 0 { 0 } else { block / 3 };
        let fam = ["sine_noise", "noise_full", "silence", "sine", "alt2", "laplace", "tiny_noise", "sine_loud_noise"][k % 8];
        let mut a = gen::gen_audio_family(&mut rng, channels, bps, 44100, len, fam);
        if channels == 2 && k % 3 == 0 {
            // correlated stereo to trigger a side-channel assignment
            for t in 0..len {
                a.samples[2 * t + 1] = (i64::from(a.samples[2 * t]) + rng.range(-3, 3)).clamp(i64::from(gen::smin(bps)), i64::from(gen::smax(bps))) as i32;
            }
        }
        let mut cfg = gen::gen_config(&mut rng, &ConfigOpts { multithread: Some(false), min_max_parameter: 8, no_experimental: false });
        match k % 4 {
            0 => {
                cfg.subframe_coding.use_lpc = true;
                cfg.subframe_coding.use_fixed = false;
                cfg.subframe_coding.qlpc.lpc_order = 8;
                cfg.subframe_coding.qlpc.quant_precision = 12;
            }
            1 => {
                cfg.subframe_coding.use_lpc = false;
                cfg.subframe_coding.use_fixed = true;
                cfg.subframe_coding.fixed.max_order = 4;
            }
            2 => {
                cfg.subframe_coding.use_lpc = false;
                cfg.subframe_coding.use_fixed = false;
            }
            _ => {}
        }
        cfg.block_size = block;
        let Ok(ver) = enc::verified(&cfg) else { continue };
        let a = Arc::new(a);
        let src = TestSource::new(Arc::clone(&a), FillMode::Int, true);
        let Ok(stream) = enc::encode_stream(&ver, src, block) else { continue };
        let Ok(bytes) = enc::to_bytes(&stream) else { continue };
        let rep = refdec::decode_stream(&bytes);
        if rep.fatal().is_some() || rep.pcm != a.samples || bytes.len() > 1400 {
            continue;
        }
        let kinds: Vec<String> = rep.frames.iter().flat_map(|f| f.subframes.iter().map(|s| format!("{:?}", s.kind))).take(4).collect();
        v.push(Base {
            audio_offset: rep.audio_offset,
            frames: rep.frames.iter().map(|f| (f.offset, f.len)).collect(),
            hdr: rep.frames.iter().map(|f| (f.header.header_len, f.header.number_len)).collect(),
            pcm: a.samples.clone(),
            desc: format!("{}ch {}bit block {} {} frames {} bytes {fam} {:?} {:?}", channels, bps, block, rep.frames.len(), bytes.len(), rep.frames.first().map(|f| f.header.assign), kinds),
            bytes,
        });
    }
    v
}

/// A frame of `base` that is valid in every respect (CRC-8 and CRC-16 recomputed) except that its
/// coded frame/sample number may be replaced by an arbitrary UTF-8-like code of 1..=7 bytes
/// (`recode`), the blocking-strategy bit is sometimes flipped and - one time in three - the
/// block-size / sample-rate / channel / sample-size codes are arbitrary.
pub fn craft_frame(base: &Base, fi: usize, recode: bool, rng: &mut Rng) -> Vec<u8> {
            let (o, l) = base.frames[fi];
            let (hl, nl) = base.hdr[fi];
            let mut fr: Vec<u8> = base.bytes[o..o + 4].to_vec();
            if rng.chance(1, 2) {
                fr[1] ^= 1;
            }
            // one crafted frame in three also gets arbitrary block-size / sample-rate /
            // channel / sample-size codes (reserved ones included); the optional
            // trailing fields are kept as they were, the CRC-8 is recomputed
            if rng.chance(1, 3) {
                match rng.usize_below(4) {
                    0 => fr[2] = (fr[2] & 0x0F) | ((if rng.flip() { 6 + rng.usize_below(2) } else { rng.usize_below(16) } as u8) << 4),
                    1 => fr[2] = (fr[2] & 0xF0) | if rng.flip() { 12 + rng.usize_below(3) } else { rng.usize_below(16) } as u8,
                    2 => fr[3] = (fr[3] & 0x0F) | ((rng.usize_below(16) as u8) << 4),
                    _ => fr[3] = (fr[3] & 0xF1) | ((rng.usize_below(8) as u8) << 1),
                }
                if rng.chance(1, 8) {
                    fr[2] &= 0x0F; // the reserved block-size code 0000
                }
            }
            if recode {
                let len = 1 + rng.usize_below(7);
                let payload: u64 = match rng.usize_below(5) {
                    0 => u64::MAX,
                    1 => 0,
                    2 => 1u64 << rng.usize_below(37),
                    3 => (1u64 << rng.usize_below(37)).wrapping_sub(1),
                    _ => rng.next_u64(),
                };
                if len == 1 {
                    fr.push((payload & 0x7F) as u8);
                } else {
                    let lead_bits = 7 - len; // payload bits in the lead byte
                    let total_bits = lead_bits + 6 * (len - 1);
                    let v = if total_bits >= 64 { payload } else { payload & ((1u64 << total_bits) - 1) };
                    let lead_mask: u8 = (0xFFu16 << (8 - len)) as u8;
                    fr.push(lead_mask | ((v >> (6 * (len - 1))) as u8 & ((1u16 << lead_bits) as u8).wrapping_sub(1)));
                    for k in (0..len - 1).rev() {
                        fr.push(0x80 | ((v >> (6 * k)) as u8 & 0x3F));
                    }
                }
            } else {
                fr.extend_from_slice(&base.bytes[o + 4..o + 4 + nl]);
            }
            // optional block-size / sample-rate bytes: as many as the (possibly re-written) codes
            // announce - block-size code 0110 one byte, 0111 two; rate code 1100 one byte, 1101 and
            // 1110 two - the original ones where the code is unchanged, otherwise extreme or
            // random values (0x00, 0xFF, 0xFFFF ... : "block size - 1" at both ends of its range)
            let orig_extra = &base.bytes[o + 4 + nl..o + hl - 1];
            let bs_code = fr[2] >> 4;
            let sr_code = fr[2] & 0x0F;
            let need = usize::from(bs_code == 6) + 2 * usize::from(bs_code == 7) + usize::from(sr_code == 12) + 2 * usize::from(sr_code == 13 || sr_code == 14);
            if fr[2] == base.bytes[o + 2] || need == orig_extra.len() && rng.chance(1, 2) {
                fr.extend_from_slice(orig_extra);
            } else {
                for _ in 0..need {
                    fr.push(match rng.usize_below(4) {
                        0 => 0xFF,
                        1 => 0x00,
                        2 => 0xFE,
                        _ => rng.next_u64() as u8,
                    });
                }
            }
            fr.push(refdec::crc8(&fr));
            fr.extend_from_slice(&base.bytes[o + hl..o + l - 2]);
            let c16 = refdec::crc16(&fr);
            fr.extend_from_slice(&c16.to_be_bytes());
    fr
}

/// The UTF-8-like code of `v` (canonical: the shortest form), 1..=7 bytes, up to 36 payload bits.
pub fn utf8like(v: u64) -> Vec<u8> {
    if v < 0x80 {
        return vec![v as u8];
    }
    let mut len = 2;
    while len < 7 && v >= 1u64 << (5 * len + 1) {
        len += 1;
    }
    let lead_bits = 7 - len;
    let lead_mask: u8 = (0xFFu16 << (8 - len)) as u8;
    let mut out = vec![lead_mask | ((v >> (6 * (len - 1))) as u8 & (((1u16 << lead_bits) - 1) as u8))];
    for k in (0..len - 1).rev() {
        out.push(0x80 | ((v >> (6 * k)) as u8 & 0x3F));
    }
    out
}

/// Re-writes an emitted (fixed-blocksize) stream as the equivalent VARIABLE-blocksize stream:
/// blocking-strategy bit set in every frame, the coded frame number replaced by the number of the
/// frame's first sample (+ `offset`, to reach long codes), CRC-8 and CRC-16 recomputed. `sizes` are
/// the block sizes of the frames. With `break_at = Some(i)` frame i states a wrong start sample.
pub fn variable_blocking(base: &Base, sizes: &[usize], offset: u64, break_at: Option<usize>) -> Vec<u8> {
    let mut out = base.bytes[..base.audio_offset].to_vec();
    let mut start = offset;
    for (fi, (&(o, l), &(hl, nl))) in base.frames.iter().zip(base.hdr.iter()).enumerate() {
        let mut fr: Vec<u8> = base.bytes[o..o + 4].to_vec();
        fr[1] |= 1;
        let stated = if break_at == Some(fi) { start + 1 } else { start };
        fr.extend_from_slice(&utf8like(stated));
        fr.extend_from_slice(&base.bytes[o + 4 + nl..o + hl - 1]);
        fr.push(refdec::crc8(&fr));
        fr.extend_from_slice(&base.bytes[o + hl..o + l - 2]);
        let c16 = refdec::crc16(&fr);
        fr.extend_from_slice(&c16.to_be_bytes());
        out.extend_from_slice(&fr);
        start += sizes[fi] as u64;
    }
    out
}

#[derive(Debug, PartialEq, Eq)]
pub enum Parsed {
    Err,
    OkSame,
    OkDifferent(String),
    Panic(String, String),
}

fn decode_all(s: &Stream) -> Vec<i32> {
    let mut pcm = vec![];
    for i in 0..s.frame_count() {
        pcm.extend(s.frame(i).unwrap().decode());
    }
    pcm
}

/// Parses mutated bytes; classifies the outcome against the original audio.
pub fn parse_and_classify(data: &[u8], original: &[i32]) -> Parsed {
    let r = catch(|| match flacenc::component::parser::stream::<NomErr<'_>>(data) {
        Ok((_rest, s)) => Some(s),
        Err(_) => None,
    });
    match r {
        Err(p) => Parsed::Panic(p.site(), p.short()),
        Ok(None) => Parsed::Err,
        Ok(Some(s)) => match catch(|| decode_all(&s)) {
            Ok(pcm) => {
                if pcm == original {
                    Parsed::OkSame
                } else {
                    Parsed::OkDifferent(format!("accepted with {} samples, {} differ from the original", pcm.len(), pcm.iter().zip(original.iter()).filter(|(a, b)| a != b).count()))
                }
            }
            Err(p) => Parsed::OkDifferent(format!("accepted; Decode of the result panics: {}", p.short())),
        },
    }
}

fn report(ctx: &Ctx, sub: &str, idx: u64, base: &Base, what: &str, r: Parsed, out: &mut Outcome) {
    out.evaluations += 1;
    match r {
        Parsed::Err => out.count("rejected"),
        Parsed::OkSame => out.count("accepted_with_identical_audio"),
        Parsed::OkDifferent(d) => out.violation(
            format!("C16|accepted-altered|{sub}"),
            format!("{what}: {d} (base: {})", base.desc),
            json!({"monitor": "C16", "sub": sub, "index": idx, "seed": ctx.seed, "tier": ctx.tier.name(), "case": {"base": base.desc, "mutation": what}}),
        ),
        Parsed::Panic(site, msg) => out.violation(
            format!("C16|panic|{site}"),
            format!("{what}: {msg} (base: {})", base.desc),
            json!({"monitor": "C16", "sub": sub, "index": idx, "seed": ctx.seed, "tier": ctx.tier.name(), "case": {"base": base.desc, "mutation": what}}),
        ),
    }
}

pub fn run_c16(ctx: &Ctx) -> i32 {
    let mut out = Outcome::default();
    let nbase = ctx.tier.pick(16, 60);
    let bases = Arc::new(base_streams(ctx.seed, nbase));
    if bases.len() < 4 {
        out.inconclusive.push(format!("only {} base streams could be generated", bases.len()));
    }
    for (i, b) in bases.iter().enumerate().take(3) {
        out.sample(json!({"base_stream": i, "description": b.desc, "frame_region_bits": (b.bytes.len() - b.audio_offset) * 8}));
    }
    // unaltered bases must parse and decode to the original
    for (i, b) in bases.iter().enumerate() {
        let r = parse_and_classify(&b.bytes, &b.pcm);
        if r != Parsed::OkSame {
            out.violation("C16|base-not-accepted", format!("base stream {i} ({}) : {r:?}", b.desc), json!({"sub": "base", "index": i}));
        }
    }
    // chunks of 256 bit offsets
    let mut work: Vec<(usize, usize)> = vec![];
    for (bi, b) in bases.iter().enumerate() {
        let bits = (b.bytes.len() - b.audio_offset) * 8;
        let mut s = 0;
        while s < bits {
            work.push((bi, s));
            s += 256;
        }
    }
    let work = Arc::new(work);
    // (1) exhaustive single-bit flips
    let (w1, b1) = (Arc::clone(&work), Arc::clone(&bases));
    run_cases(ctx, "bitflip", work.len() as u64, &mut out, |idx, out| {
        let (bi, s) = w1[idx as usize];
        let base = &b1[bi];
        let bits = (base.bytes.len() - base.audio_offset) * 8;
        let mut data = base.bytes.clone();
        for bit in s..(s + 256).min(bits) {
            let pos = base.audio_offset * 8 + bit;
            data[pos / 8] ^= 0x80 >> (pos % 8);
            let r = parse_and_classify(&data, &base.pcm);
            out.distinct.insert(((bi as u64) << 40) | bit as u64);
            report(ctx, "bitflip", idx, base, &format!("base {bi}: flip bit {bit} of the frame region"), r, out);
            data[pos / 8] ^= 0x80 >> (pos % 8);
        }
    });
    // (2) bursts of length 2..=8 (first and last bit set: 127 patterns) at every bit offset
    let burst_bases = ctx.tier.pick(5, bases.len());
    let (w2, b2) = (Arc::clone(&work), Arc::clone(&bases));
    run_cases(ctx, "burst", work.len() as u64, &mut out, |idx, out| {
        let (bi, s) = w2[idx as usize];
        if bi >= burst_bases {
            return;
        }
        let base = &b2[bi];
        let bits = (base.bytes.len() - base.audio_offset) * 8;
        let mut data = base.bytes.clone();
        for bit in s..(s + 256).min(bits) {
            for len in 2..=8usize {
                if bit + len > bits {
                    continue;
                }
                for inner in 0..(1u32 << (len - 2)) {
                    // pattern: 1 inner.. 1
                    let pat: u32 = (1 << (len - 1)) | (inner << 1) | 1;
                    let apply = |d: &mut Vec<u8>| {
                        for j in 0..len {
                            if pat >> (len - 1 - j) & 1 == 1 {
                                let pos = base.audio_offset * 8 + bit + j;
                                d[pos / 8] ^= 0x80 >> (pos % 8);
                            }
                        }
                    };
                    apply(&mut data);
                    let r = parse_and_classify(&data, &base.pcm);
                    out.distinct.insert(((bi as u64) << 40) | ((bit as u64) << 12) | ((len as u64) << 8) | u64::from(inner) | (1 << 62));
                    report(ctx, "burst", idx, base, &format!("base {bi}: XOR pattern {pat:0len$b} at bit {bit} of the frame region"), r, out);
                    apply(&mut data);
                }
            }
        }
    });
    // (3) every non-zero XOR byte at every byte position + truncation at every byte
    let byte_bases = ctx.tier.pick(5, bases.len());
    let mut bwork: Vec<(usize, usize)> = vec![];
    for (bi, b) in bases.iter().enumerate().take(byte_bases) {
        for p in b.audio_offset..b.bytes.len() {
            bwork.push((bi, p));
        }
    }
    let bwork = Arc::new(bwork);
    let (w3, b3) = (Arc::clone(&bwork), Arc::clone(&bases));
    run_cases(ctx, "bytexor", bwork.len() as u64, &mut out, |idx, out| {
        let (bi, p) = w3[idx as usize];
        let base = &b3[bi];
        let mut data = base.bytes.clone();
        for x in 1..=255u8 {
            data[p] ^= x;
            let r = parse_and_classify(&data, &base.pcm);
            report(ctx, "bytexor", idx, base, &format!("base {bi}: byte {p} ^= {x:#04x}"), r, out);
            data[p] ^= x;
        }
        out.distinct.insert((1 << 61) | ((bi as u64) << 40) | p as u64);
    });
    let b4 = Arc::clone(&bases);
    run_cases(ctx, "truncate", bases.len() as u64, &mut out, |idx, out| {
        let base = &b4[idx as usize];
        for cut in 0..base.bytes.len() {
            out.evaluations += 1;
            out.distinct.insert((1 << 60) | (idx << 40) | cut as u64);
            let data = &base.bytes[..cut];
            let r = catch(|| flacenc::component::parser::stream::<NomErr<'_>>(data).is_ok());
            match r {
                Ok(accepted) => {
                    if accepted {
                        // only legitimate at a frame boundary (a valid shorter stream)
                        let at_boundary = cut == base.audio_offset || base.frames.iter().any(|(o, l)| o + l == cut);
                        if at_boundary {
                            out.count("truncations_at_frame_boundary_accepted");
                        } else {
                            out.violation("C16|accepted-altered|truncate", format!("stream truncated at byte {cut} (not a frame boundary) is accepted (base: {})", base.desc), json!({"sub": "truncate", "index": idx, "cut": cut}));
                        }
                    } else {
                        out.count("rejected");
                    }
                }
                Err(p) => out.violation(format!("C16|panic|{}", p.site()), format!("truncated at {cut}: {} (base: {})", p.short(), base.desc), json!({"monitor": "C16", "sub": "truncate", "index": idx, "seed": ctx.seed, "tier": ctx.tier.name(), "case": {"cut": cut}})),
            }
        }
    });
    // (3b) metadata blocks of EVERY type tag (0 = a second STREAMINFO ... 127 = the forbidden tag)
    // with payloads that are a copy of the stream's own STREAMINFO body, all-zero / all-ones /
    // random bodies of the STREAMINFO length, and other lengths - as the last block and ahead of
    // an application block - and every single-bit flip of the metadata region of such a stream.
    // The frames are untouched: the parser may refuse or accept, must not panic, and what it
    // accepts must decode to the original audio.
    let b6 = Arc::clone(&bases);
    run_cases(ctx, "metablocks", bases.len() as u64 * 128, &mut out, |idx, out| {
        let base = &b6[(idx / 128) as usize];
        let tag = (idx % 128) as u8;
        if base.audio_offset != 42 {
            return;
        }
        let mut rng = Rng::for_case(ctx.seed, "C16.metablocks", idx);
        let body = base.bytes[8..42].to_vec();
        let payloads: Vec<(&str, Vec<u8>)> = vec![
            ("own STREAMINFO body", body.clone()),
            ("34 zero bytes", vec![0u8; 34]),
            ("34 0xFF bytes", vec![0xFFu8; 34]),
            ("34 random bytes", (0..34).map(|_| rng.next_u64() as u8).collect()),
            ("empty", vec![]),
            ("1 byte", vec![0x5A]),
            ("33 bytes", body[..33].to_vec()),
            ("35 bytes", body.iter().cloned().chain([0u8]).collect()),
            ("100 random bytes", (0..100).map(|_| rng.next_u64() as u8).collect()),
        ];
        let assemble = |blocks: &[(u8, &[u8])]| -> Vec<u8> {
            let mut d = b"fLaC".to_vec();
            d.push(if blocks.is_empty() { 0x80 } else { 0x00 });
            d.extend_from_slice(&[0, 0, 34]);
            d.extend_from_slice(&body);
            for (i, (t, pl)) in blocks.iter().enumerate() {
                d.push(t | if i + 1 == blocks.len() { 0x80 } else { 0 });
                d.extend_from_slice(&(pl.len() as u32).to_be_bytes()[1..]);
                d.extend_from_slice(pl);
            }
            d.extend_from_slice(&base.bytes[base.audio_offset..]);
            d
        };
        for (pname, pl) in &payloads {
            for shape in 0..3 {
                let app: &[u8] = &[1, 2, 3, 4, 5, 6];
                let blocks: Vec<(u8, &[u8])> = match shape {
                    0 => vec![(tag, pl.as_slice())],
                    1 => vec![(tag, pl.as_slice()), (2, app)],
                    _ => vec![(2, app), (tag, pl.as_slice())],
                };
                let data = assemble(&blocks);
                let r = parse_and_classify(&data, &base.pcm);
                out.distinct.insert((1 << 58) | (idx << 8) | (shape << 4) as u64 | (pl.len() as u64 & 15));
                report(ctx, "metablocks", idx, base, &format!("metadata block of type {tag} ({pname}) {}", ["as the only added block", "ahead of an application block", "behind an application block"][shape]), r, out);
            }
        }
        // every single-bit flip of the metadata region of one such stream per (base, tag % 8)
        if tag < 8 {
            let app: &[u8] = &[9, 8, 7];
            let t2 = [1u8, 2, 3, 4, 5, 6, 126, 4][tag as usize];
            let blocks: Vec<(u8, &[u8])> = vec![(t2, payloads[tag as usize].1.as_slice()), (2, app)];
            let mut data = assemble(&blocks);
            let meta_end = data.len() - (base.bytes.len() - base.audio_offset);
            for bit in 32..meta_end * 8 {
                data[bit / 8] ^= 0x80 >> (bit % 8);
                out.evaluations += 1;
                let r = catch(|| match flacenc::component::parser::stream::<NomErr<'_>>(&data) {
                    Ok((_, s)) => {
                        let _ = decode_all(&s);
                        true
                    }
                    Err(_) => false,
                });
                match r {
                    Ok(true) => out.count("metadata_flips_accepted"),
                    Ok(false) => out.count("rejected"),
                    Err(p) => out.violation(format!("C16|panic|{}", p.site()), format!("metadata region (type {t2} block + application block): flip bit {bit}: {} (base: {})", p.short(), base.desc), json!({"monitor": "C16", "sub": "metablocks", "index": idx, "seed": ctx.seed, "tier": ctx.tier.name(), "case": {"bit": bit}})),
                }
                data[bit / 8] ^= 0x80 >> (bit % 8);
            }
        }
    });
    // (3c) frames another encoder could have written: the header of the base's first frame (CRC-8
    // intact), every subframe a FIXED predictor of order 0..=4 whose warm-up sits at the limits of
    // the width and whose residual is coded with 5-bit Rice parameters up to 30 (or 4-bit ones up
    // to 14) and remainders near 2^28 - sample values far outside the width once decoded - with a
    // correct CRC-16, behind a STREAMINFO that carries a non-zero MD5. Whatever the parser does
    // with what it read (checking, decoding, hashing), it must do it without panicking; nothing
    // is decoded here afterwards (Decode on such a stream is not the parser, cf. DESIGN 6.8).
    let b7 = Arc::clone(&bases);
    let nf = ctx.tier.pick(600u64, 30_000);
    run_cases(ctx, "foreign", nf, &mut out, |idx, out| {
        let mut rng = Rng::for_case(ctx.seed, "C16.foreign", idx);
        let base = &b7[(idx as usize) % b7.len()];
        let rep = refdec::decode_stream(&base.bytes);
        let Some(f0) = rep.frames.first() else { return };
        let (o, _) = base.frames[0];
        let (hl, _) = base.hdr[0];
        let n = f0.header.block_size;
        let bps = rep.info.bps as usize;
        let widths: Vec<usize> = match f0.header.assign {
            refdec::Assign::Indep(c) => vec![bps; c as usize],
            refdec::Assign::LeftSide => vec![bps, bps + 1],
            refdec::Assign::SideRight => vec![bps + 1, bps],
            refdec::Assign::MidSide => vec![bps, bps + 1],
        };
        let mut m = crate::bitmodel::BitVec::new();
        for &w in &widths {
            let order = rng.usize_below(5).min(n);
            m.push_lsbs(0, 1);
            m.push_lsbs(0b001000 | order as u64, 6);
            m.push_lsbs(0, 1);
            let lim = 1i64 << (w - 1);
            for _ in 0..order {
                let any = rng.range(-lim, lim - 1);
                let v = *rng.pick(&[lim - 1, -lim, 0, lim - 1, -lim, any]);
                m.push_lsbs((v as u64) & ((1u64 << w) - 1), w);
            }
            let method5 = rng.chance(2, 3);
            m.push_lsbs(u64::from(method5), 2);
            let po = if n % 4 == 0 && n / 4 >= order.max(1) { rng.usize_below(3) } else { 0 };
            m.push_lsbs(po as u64, 4);
            let parts = 1usize << po;
            let plen = n >> po;
            for part in 0..parts {
                let p = if method5 { *rng.pick(&[30usize, 29, 28, 24, 16, 5]) } else { *rng.pick(&[14usize, 13, 8, 0]) };
                m.push_lsbs(p as u64, if method5 { 5 } else { 4 });
                let sign_pattern = rng.usize_below(3);
                for t in (part * plen).max(order)..(part + 1) * plen {
                    m.push_zeros(rng.usize_below(2));
                    m.push_lsbs(1, 1);
                    if p > 0 {
                        // remainders near the top of the field; the zigzag bit decides the sign
                        let top = ((1u64 << p) - 1) & !1;
                        let sign = match sign_pattern {
                            0 => 0,
                            1 => 1,
                            _ => (t & 1) as u64,
                        };
                        m.push_lsbs((top - 2 * (rng.next_u64() % 4).min(top / 2)) | sign, p);
                    }
                }
            }
        }
        m.align();
        let mut data = base.bytes[..base.audio_offset].to_vec();
        let mut fr = base.bytes[o..o + hl].to_vec();
        fr.extend_from_slice(&m.bytes);
        let c16 = refdec::crc16(&fr);
        fr.extend_from_slice(&c16.to_be_bytes());
        data.extend_from_slice(&fr);
        out.evaluations += 1;
        out.distinct.insert((1 << 57) | idx);
        let r = catch(|| flacenc::component::parser::stream::<NomErr<'_>>(&data).is_ok());
        match r {
            Ok(true) => out.count("foreign_frames_accepted"),
            Ok(false) => out.count("foreign_frames_refused"),
            Err(p) => out.violation(format!("C16|panic|{}|foreign", p.site()), format!("a frame of FIXED subframes with 5-bit Rice parameters and remainders near 2^28 (valid CRCs): {} (base: {})", p.short(), base.desc), json!({"monitor": "C16", "sub": "foreign", "index": idx, "seed": ctx.seed, "tier": ctx.tier.name(), "case": {"base": base.desc}})),
        }
    });
    // (4) random byte strings and random splices of valid frames
    let n = ctx.tier.pick(600_000, 40_000_000);
    let b5 = Arc::clone(&bases);
    let chunk = 1000u64;
    run_cases(ctx, "random", n / chunk, &mut out, |idx, out| {
        let mut rng = Rng::for_case(ctx.seed, "C16.random", idx);
        for j in 0..chunk {
            let base = rng.pick(&b5);
            let mut data: Vec<u8>;
            let what;
            match rng.usize_below(8) {
                7 => {
                    // structured edits of STREAMINFO (which no frame CRC protects): whole fields
                    // set to 0 / all-ones / swapped / random, one or several at once
                    data = base.bytes.clone();
                    // offsets inside the stream: 8 min block(2) 10 max block(2) 12 min frame(3)
                    // 15 max frame(3) 18 rate/channels/bps/total(8) 26 md5(16)
                    let fields: [(usize, usize); 6] = [(8, 2), (10, 2), (12, 3), (15, 3), (18, 8), (26, 16)];
                    let both_blocks = rng.chance(1, 3);
                    for _ in 0..1 + rng.usize_below(3) {
                        let (o, l) = if both_blocks { (8, 4) } else { *rng.pick(&fields) };
                        if data.len() < o + l {
                            continue;
                        }
                        match rng.usize_below(4) {
                            0 => data[o..o + l].fill(0),
                            1 => data[o..o + l].fill(0xFF),
                            2 => data[o..o + l].reverse(),
                            _ => {
                                for b in &mut data[o..o + l] {
                                    *b = rng.next_u64() as u8;
                                }
                            }
                        }
                    }
                    what = "STREAMINFO fields set to 0 / all-ones / reversed / random";
                }
                5 | 6 => {
                    // a frame that is valid in every respect (CRC-8 and CRC-16 recomputed) except
                    // that its coded frame/sample number is replaced by an arbitrary UTF-8-like
                    // code of 1..=7 bytes (canonical or over-long, up to 36 payload bits) and the
                    // blocking-strategy bit is sometimes flipped: reaches whatever the parser does
                    // with the number AFTER its integrity checks passed
                    data = base.bytes[..base.audio_offset].to_vec();
                    let nfr = 1 + rng.usize_below(base.frames.len());
                    for fi in 0..nfr {
                        let fr = craft_frame(base, fi, fi + 1 == nfr || rng.chance(1, 3), &mut rng);
                        data.extend_from_slice(&fr);
                    }
                    what = "valid frames with a re-coded frame number (1..7-byte code, CRCs recomputed)";
                }
                0 => {
                    // pure random after a valid marker + STREAMINFO
                    data = base.bytes[..base.audio_offset].to_vec();
                    let l = rng.usize_below(120);
                    data.extend((0..l).map(|_| rng.next_u64() as u8));
                    what = "valid header + random bytes";
                }
                1 => {
                    let l = rng.usize_below(200);
                    data = (0..l).map(|_| rng.next_u64() as u8).collect();
                    if rng.flip() && l >= 4 {
                        data[..4].copy_from_slice(b"fLaC");
                    }
                    what = "random bytes";
                }
                2 => {
                    // splice frames of two bases
                    let other = rng.pick(&b5);
                    data = base.bytes[..base.audio_offset].to_vec();
                    for _ in 0..rng.usize_below(4) {
                        let src = if rng.flip() { base } else { other };
                        let (o, l) = *rng.pick(&src.frames);
                        let cut = if rng.chance(1, 3) { rng.usize_below(l + 1) } else { l };
                        data.extend_from_slice(&src.bytes[o..o + cut]);
                    }
                    what = "splice of valid frames";
                }
                3 => {
                    // sync-looking header with random fields, then random payload
                    data = base.bytes[..base.audio_offset].to_vec();
                    data.extend_from_slice(&[0xFF, 0xF8 | (rng.next_u64() as u8 & 1)]);
                    let l = 4 + rng.usize_below(60);
                    data.extend((0..l).map(|_| rng.next_u64() as u8));
                    what = "sync code + random header/payload";
                }
                _ => {
                    // several random byte edits anywhere (metadata included)
                    data = base.bytes.clone();
                    for _ in 0..1 + rng.usize_below(6) {
                        let p = rng.usize_below(data.len());
                        data[p] = rng.next_u64() as u8;
                    }
                    what = "random byte edits anywhere";
                }
            }
            out.evaluations += 1;
            let r = catch(|| {
                let r = flacenc::component::parser::stream::<NomErr<'_>>(&data);
                match r {
                    Ok((_, s)) => {
                        // decoding an accepted stream must not panic either way
                        let _ = decode_all(&s);
                        true
                    }
                    Err(_) => false,
                }
            });
            match r {
                Ok(true) => out.count("random_inputs_accepted"),
                Ok(false) => out.count("rejected"),
                Err(p) => {
                    let stage = if p.file.contains("decode.rs") { "decode-after-accept" } else { "parser" };
                    out.violation(format!("C16|panic|{}|{stage}", p.site()), format!("{what}: {} ; input = {:02x?}", p.short(), &data[..data.len().min(64)]), json!({"monitor": "C16", "sub": "random", "index": idx, "seed": ctx.seed, "tier": ctx.tier.name(), "case": {"j": j, "kind": what, "input_hex": data.iter().map(|b| format!("{b:02x}")).collect::<String>()}}));
                }
            }
        }
        out.distinct.insert((1 << 59) | idx);
    });
    let fin = Finish {
        level: "fault_enumeration",
        rule: "small emitted streams (one per subframe type / width / stereo mode, 2-4 frames of 32-192 samples) are corrupted: EVERY single-bit flip of the frame region (all bases), every burst pattern of length 2..=8 with first and last bit set (127 patterns) at every bit offset, every non-zero XOR byte at every byte, truncation at every byte, metadata blocks of every type tag 0..=127 with STREAMINFO-shaped and other payloads (and every bit flip of such a metadata region), frames of FIXED subframes coded with 5-bit Rice parameters up to 30 and remainders near 2^28 behind valid CRCs (parser only), plus random byte strings / splices / fake headers / random edits; parser::stream must return Err or Ok without panicking, and an accepted altered stream must Decode to the original audio (anything else = altered content accepted); distinct = distinct (base, position, pattern)",
        assumptions: vec!["truncation exactly at a frame boundary yields a valid shorter stream and may be accepted".into()],
        exhaustive: Some(ctx.only.is_none()),
        floors: vec![("mutated inputs rejected".into(), out.stats.get("rejected").copied().unwrap_or(0), 10_000)],
        extra: json!({"base_streams": bases.len(), "bitflips_exhaustive_over_all_bases": true, "burst_and_bytexor_bases": burst_bases}),
    };
    finish(ctx, out, fin)
}

#[allow(dead_code)]
fn _unused(_: Audio, _: config::Encoder) {}

/// Miri/sanitizer-sized C16: bit flips, byte XORs and truncations of one or two tiny streams.
pub fn mini_c16(ctx: &Ctx, scale: u64, out: &mut Outcome) {
    let bases = base_streams(ctx.seed, 2);
    for (bi, b) in bases.iter().enumerate() {
        let nbits = (b.bytes.len() - b.audio_offset) * 8;
        let mut rng = Rng::for_case(ctx.seed, "mini.C16", bi as u64);
        for k in 0..(40 * scale as usize) {
            let mut d = b.bytes.clone();
            let what = match k % 4 {
                0 | 1 => {
                    let bit = b.audio_offset * 8 + rng.usize_below(nbits);
                    d[bit / 8] ^= 0x80 >> (bit % 8);
                    format!("flip bit {bit}")
                }
                2 => {
                    let pos = rng.usize_below(d.len());
                    d[pos] ^= 1 + rng.usize_below(255) as u8;
                    format!("xor byte {pos}")
                }
                _ => {
                    let cut = rng.usize_below(d.len());
                    d.truncate(cut);
                    format!("truncate at {cut}")
                }
            };
            let mut r = parse_and_classify(&d, &b.pcm);
            if k % 4 == 3 && matches!(r, Parsed::OkDifferent(_)) {
                // a truncated stream may be a valid shorter stream; only panics count here
                r = Parsed::Err;
            }
            report(ctx, "mini", k as u64, b, &what, r, out);
        }
    }
}
