//! `refdec`: an independent, strict FLAC decoder / validator written from RFC 9639.
//!
//! Shares no code with `flacenc`: own bit reader, CRC tables, UTF-8-like number decoder,
//! Rice decoder (incl. escape partitions, wasted bits), 64-bit prediction, stereo un-mixing.
//!
//! It never panics on any input; structural impossibilities are `Fatal` issues, everything
//! else that a MUST of the RFC (or the literal wording of property C02) forbids is recorded
//! as a non-fatal issue and decoding continues so that several oracles can use one pass.

use md5::Digest;

#[derive(Clone, Copy, Debug, PartialEq, Eq, Hash)]
pub enum Class {
    /// Cannot be decoded at all.
    Fatal,
    /// Decodable, but an integrity field disagrees (CRC-8/16, MD5, total samples).
    Integrity,
    /// Violates a format rule (reserved code, non-canonical coding, padding, limits).
    Format,
    /// STREAMINFO min/max block/frame size fields are invalid or inexact.
    Bounds,
    /// Informational only (never a violation): e.g. a prediction that is only correct modulo
    /// 2^32, which every real decoder (32-bit sample storage) handles.
    Note,
}

#[derive(Clone, Debug)]
pub struct Issue {
    pub class: Class,
    pub clause: &'static str,
    pub detail: String,
    /// frame index (None = stream level)
    pub frame: Option<usize>,
}

#[derive(Clone, Debug, Default, PartialEq, Eq)]
pub struct StreamInfoRaw {
    pub is_last: bool,
    pub min_block: u32,
    pub max_block: u32,
    pub min_frame: u32,
    pub max_frame: u32,
    pub rate: u32,
    pub channels: u32,
    pub bps: u32,
    pub total: u64,
    pub md5: [u8; 16],
}

#[derive(Clone, Debug)]
pub struct MetaRaw {
    pub is_last: bool,
    pub typ: u8,
    pub len: usize,
}

#[derive(Clone, Copy, Debug, PartialEq, Eq, Hash)]
pub enum Assign {
    Indep(u8),
    LeftSide,
    SideRight,
    MidSide,
}

#[derive(Clone, Debug)]
pub struct HeaderReport {
    pub variable: bool,
    pub bs_code: u8,
    pub block_size: usize,
    pub sr_code: u8,
    /// None = "take from STREAMINFO"
    pub rate: Option<u32>,
    pub ch_code: u8,
    pub assign: Assign,
    pub ss_code: u8,
    pub bps: Option<u32>,
    pub number: u64,
    pub number_len: usize,
    pub header_len: usize,
}

#[derive(Clone, Copy, Debug, PartialEq, Eq, Hash)]
pub enum SubKind {
    Constant,
    Verbatim,
    Fixed(u8),
    Lpc(u8),
}

#[derive(Clone, Debug)]
pub struct ResidualReport {
    pub method: u8,
    pub order: u8,
    /// (parameter, is_escape, escape raw width)
    pub params: Vec<(u8, bool, u8)>,
    /// residual values, one per sample after the warm-up (length n - predictor order)
    pub values: Vec<i64>,
    /// number of bits the residual section occupied
    pub bits: usize,
}

#[derive(Clone, Debug)]
pub struct SubReport {
    pub kind: SubKind,
    pub bps: u32,
    pub wasted: u32,
    pub precision: u32,
    pub shift: i32,
    pub coefs: Vec<i32>,
    pub residual: Option<ResidualReport>,
    pub bits: usize,
    /// decoded (pre-unmixing) samples
    pub samples: Vec<i64>,
}

#[derive(Clone, Debug)]
pub struct FrameReport {
    pub offset: usize,
    pub len: usize,
    pub header: HeaderReport,
    pub subframes: Vec<SubReport>,
    pub padding_bits: usize,
    /// per channel, after un-mixing
    pub channels: Vec<Vec<i64>>,
}

#[derive(Clone, Debug, Default)]
pub struct Report {
    pub info: StreamInfoRaw,
    pub meta: Vec<MetaRaw>,
    pub frames: Vec<FrameReport>,
    /// interleaved samples of the whole stream
    pub pcm: Vec<i32>,
    pub issues: Vec<Issue>,
    pub audio_offset: usize,
    pub md5_computed: [u8; 16],
}

impl Report {
    pub fn has(&self, class: Class) -> bool {
        self.issues.iter().any(|i| i.class == class)
    }
    pub fn first(&self, classes: &[Class]) -> Option<&Issue> {
        self.issues.iter().find(|i| classes.contains(&i.class))
    }
    pub fn fatal(&self) -> Option<&Issue> {
        self.first(&[Class::Fatal])
    }
}

// ---------------------------------------------------------------- CRC

fn crc8_table() -> &'static [u8; 256] {
    static T: std::sync::OnceLock<[u8; 256]> = std::sync::OnceLock::new();
    T.get_or_init(|| {
        let mut t = [0u8; 256];
        for (i, e) in t.iter_mut().enumerate() {
            let mut c = i as u8;
            for _ in 0..8 {
                c = if c & 0x80 != 0 { (c << 1) ^ 0x07 } else { c << 1 };
            }
            *e = c;
        }
        t
    })
}

fn crc16_table() -> &'static [u16; 256] {
    static T: std::sync::OnceLock<[u16; 256]> = std::sync::OnceLock::new();
    T.get_or_init(|| {
        let mut t = [0u16; 256];
        for (i, e) in t.iter_mut().enumerate() {
            let mut c = (i as u16) << 8;
            for _ in 0..8 {
                c = if c & 0x8000 != 0 {
                    (c << 1) ^ 0x8005
                } else {
                    c << 1
                };
            }
            *e = c;
        }
        t
    })
}

pub fn crc8(data: &[u8]) -> u8 {
    let t = crc8_table();
    let mut c = 0u8;
    for b in data {
        c = t[(c ^ *b) as usize];
    }
    c
}

pub fn crc16(data: &[u8]) -> u16 {
    let t = crc16_table();
    let mut c = 0u16;
    for b in data {
        c = (c << 8) ^ t[(((c >> 8) as u8) ^ *b) as usize];
    }
    c
}

// ---------------------------------------------------------------- bit reader

pub struct BitReader<'a> {
    data: &'a [u8],
    /// bit position
    pos: usize,
}

#[derive(Debug)]
pub struct Eof;

impl<'a> BitReader<'a> {
    pub fn new(data: &'a [u8]) -> Self {
        Self { data, pos: 0 }
    }
    pub fn at(data: &'a [u8], byte_offset: usize) -> Self {
        Self {
            data,
            pos: byte_offset * 8,
        }
    }
    pub fn bitpos(&self) -> usize {
        self.pos
    }
    pub fn remaining_bits(&self) -> usize {
        self.data.len() * 8 - self.pos
    }
    pub fn bit(&mut self) -> Result<u32, Eof> {
        let byte = self.pos >> 3;
        if byte >= self.data.len() {
            return Err(Eof);
        }
        let b = (self.data[byte] >> (7 - (self.pos & 7))) & 1;
        self.pos += 1;
        Ok(u32::from(b))
    }
    /// Reads n <= 64 bits MSB first.
    pub fn bits(&mut self, n: usize) -> Result<u64, Eof> {
        debug_assert!(n <= 64);
        if n > self.remaining_bits() {
            return Err(Eof);
        }
        let mut v: u64 = 0;
        let mut left = n;
        while left > 0 {
            let byte = self.data[self.pos >> 3];
            let avail = 8 - (self.pos & 7);
            let take = avail.min(left);
            let shifted = (byte >> (avail - take)) as u64 & ((1u64 << take) - 1);
            v = if take == 64 { shifted } else { (v << take) | shifted };
            self.pos += take;
            left -= take;
        }
        Ok(v)
    }
    pub fn signed(&mut self, n: usize) -> Result<i64, Eof> {
        if n == 0 {
            return Ok(0);
        }
        let u = self.bits(n)?;
        if n == 64 {
            return Ok(u as i64);
        }
        let sign = 1u64 << (n - 1);
        Ok(if u & sign != 0 {
            (u as i64) - (1i64 << n)
        } else {
            u as i64
        })
    }
    /// Number of zero bits before the next one bit (consumes the one).
    pub fn unary(&mut self) -> Result<u64, Eof> {
        let mut q = 0u64;
        loop {
            // fast path over whole zero bytes
            if self.pos & 7 == 0 {
                let byte = self.pos >> 3;
                if byte >= self.data.len() {
                    return Err(Eof);
                }
                if self.data[byte] == 0 {
                    q += 8;
                    self.pos += 8;
                    continue;
                }
            }
            if self.bit()? == 1 {
                return Ok(q);
            }
            q += 1;
        }
    }
    pub fn is_aligned(&self) -> bool {
        self.pos & 7 == 0
    }
}

// ---------------------------------------------------------------- header decoding

fn fatal(clause: &'static str, detail: String, frame: Option<usize>) -> Issue {
    Issue {
        class: Class::Fatal,
        clause,
        detail,
        frame,
    }
}

/// Decodes the UTF-8-like coded number at `data[0..]`; returns (value, byte length, canonical).
pub fn decode_coded_number(data: &[u8]) -> Result<(u64, usize, bool), &'static str> {
    if data.is_empty() {
        return Err("eof in coded number");
    }
    let h = data[0];
    let (extra, init): (usize, u64) = if h & 0x80 == 0 {
        (0, u64::from(h))
    } else if h & 0xE0 == 0xC0 {
        (1, u64::from(h & 0x1F))
    } else if h & 0xF0 == 0xE0 {
        (2, u64::from(h & 0x0F))
    } else if h & 0xF8 == 0xF0 {
        (3, u64::from(h & 0x07))
    } else if h & 0xFC == 0xF8 {
        (4, u64::from(h & 0x03))
    } else if h & 0xFE == 0xFC {
        (5, u64::from(h & 0x01))
    } else if h == 0xFE {
        (6, 0)
    } else {
        return Err("invalid first byte of coded number");
    };
    if data.len() < 1 + extra {
        return Err("eof in coded number");
    }
    let mut v = init;
    for b in &data[1..=extra] {
        if b & 0xC0 != 0x80 {
            return Err("continuation byte of coded number is not 10xxxxxx");
        }
        v = (v << 6) | u64::from(b & 0x3F);
    }
    // canonical = shortest form
    let min_len = if v < 0x80 {
        1
    } else if v < 0x800 {
        2
    } else if v < 0x1_0000 {
        3
    } else if v < 0x20_0000 {
        4
    } else if v < 0x400_0000 {
        5
    } else if v < 0x8000_0000 {
        6
    } else {
        7
    };
    Ok((v, 1 + extra, min_len == 1 + extra))
}

/// Parses a frame header at `data[0..]`. Pushes non-fatal issues; Err = fatal.
pub fn parse_frame_header(
    data: &[u8],
    frame: Option<usize>,
    issues: &mut Vec<Issue>,
) -> Result<HeaderReport, Issue> {
    let fmt = |clause: &'static str, detail: String| Issue {
        class: Class::Format,
        clause,
        detail,
        frame,
    };
    if data.len() < 5 {
        return Err(fatal("frame.header.eof", format!("only {} bytes", data.len()), frame));
    }
    if data[0] != 0xFF || (data[1] & 0xFC) != 0xF8 {
        return Err(fatal(
            "frame.sync",
            format!("bytes {:02x} {:02x} are not the sync code", data[0], data[1]),
            frame,
        ));
    }
    if data[1] & 0x02 != 0 {
        issues.push(fmt("frame.reserved1", "reserved bit after sync is 1".into()));
    }
    let variable = data[1] & 1 == 1;
    let bs_code = data[2] >> 4;
    let sr_code = data[2] & 0x0F;
    let ch_code = data[3] >> 4;
    let ss_code = (data[3] >> 1) & 7;
    if data[3] & 1 != 0 {
        issues.push(fmt("frame.reserved2", "reserved bit after sample size is 1".into()));
    }
    if bs_code == 0 {
        return Err(fatal("frame.blocksize.reserved", "block size code 0000".into(), frame));
    }
    if sr_code == 0x0F {
        return Err(fatal("frame.samplerate.forbidden", "sample rate code 1111".into(), frame));
    }
    let assign = match ch_code {
        0..=7 => Assign::Indep(ch_code + 1),
        8 => Assign::LeftSide,
        9 => Assign::SideRight,
        10 => Assign::MidSide,
        _ => {
            return Err(fatal(
                "frame.channels.reserved",
                format!("channel code {ch_code}"),
                frame,
            ))
        }
    };
    let bps = match ss_code {
        0 => None,
        1 => Some(8),
        2 => Some(12),
        3 => {
            return Err(fatal("frame.samplesize.reserved", "sample size code 011".into(), frame));
        }
        4 => Some(16),
        5 => Some(20),
        6 => Some(24),
        _ => Some(32),
    };
    let (number, number_len, canonical) = decode_coded_number(&data[4..])
        .map_err(|e| fatal("frame.number.coding", e.to_string(), frame))?;
    if !canonical {
        issues.push(fmt(
            "frame.number.noncanonical",
            format!("value {number} coded in {number_len} bytes"),
        ));
    }
    if !variable && number >= (1u64 << 31) {
        issues.push(fmt("frame.number.range", format!("frame number {number} needs more than 31 bits")));
    }
    let mut p = 4 + number_len;
    let need = |p: usize, n: usize| -> Result<(), Issue> {
        if data.len() < p + n {
            Err(fatal("frame.header.eof", "truncated header".into(), frame))
        } else {
            Ok(())
        }
    };
    let block_size = match bs_code {
        1 => 192,
        2..=5 => 576usize << (bs_code - 2),
        6 => {
            need(p, 1)?;
            let v = data[p] as usize + 1;
            p += 1;
            v
        }
        7 => {
            need(p, 2)?;
            let v = ((data[p] as usize) << 8 | data[p + 1] as usize) + 1;
            p += 2;
            v
        }
        _ => 256usize << (bs_code - 8),
    };
    let rate = match sr_code {
        0 => None,
        1 => Some(88_200),
        2 => Some(176_400),
        3 => Some(192_000),
        4 => Some(8_000),
        5 => Some(16_000),
        6 => Some(22_050),
        7 => Some(24_000),
        8 => Some(32_000),
        9 => Some(44_100),
        10 => Some(48_000),
        11 => Some(96_000),
        12 => {
            need(p, 1)?;
            let v = u32::from(data[p]) * 1000;
            p += 1;
            Some(v)
        }
        13 => {
            need(p, 2)?;
            let v = u32::from(data[p]) << 8 | u32::from(data[p + 1]);
            p += 2;
            Some(v)
        }
        _ => {
            need(p, 2)?;
            let v = (u32::from(data[p]) << 8 | u32::from(data[p + 1])) * 10;
            p += 2;
            Some(v)
        }
    };
    need(p, 1)?;
    let c = crc8(&data[..p]);
    if c != data[p] {
        issues.push(Issue {
            class: Class::Integrity,
            clause: "frame.crc8",
            detail: format!("header CRC-8 is {:02x}, computed {:02x}", data[p], c),
            frame,
        });
    }
    p += 1;
    if block_size > 65535 {
        // 16-bit code 0xFFFF -> 65536 is forbidden
        issues.push(fmt("frame.blocksize.65536", "block size 65536".into()));
    }
    Ok(HeaderReport {
        variable,
        bs_code,
        block_size,
        sr_code,
        rate,
        ch_code,
        assign,
        ss_code,
        bps,
        number,
        number_len,
        header_len: p,
    })
}

// ---------------------------------------------------------------- subframes

/// Decoded samples are kept in 32-bit storage (two's complement wrap), like real decoders.
fn wrap32(x: i64, wrapped: &mut bool) -> i64 {
    let w = i64::from(x as i32);
    if w != x {
        *wrapped = true;
    }
    w
}

const FIXED_COEFS: [&[i64]; 5] = [&[], &[1], &[2, -1], &[3, -3, 1], &[4, -6, 4, -1]];

fn parse_residual(
    br: &mut BitReader<'_>,
    n: usize,
    pred_order: usize,
    frame: Option<usize>,
    issues: &mut Vec<Issue>,
) -> Result<ResidualReport, Issue> {
    let start = br.bitpos();
    let eof = |_e: Eof| fatal("residual.eof", "stream ends inside residual".into(), frame);
    let method = br.bits(2).map_err(eof)? as u8;
    if method > 1 {
        return Err(fatal("residual.method.reserved", format!("method {method}"), frame));
    }
    if method != 0 {
        issues.push(Issue {
            class: Class::Format,
            clause: "residual.method.5bit",
            detail: "5-bit Rice parameters used (C02 demands 4-bit)".into(),
            frame,
        });
    }
    let pbits = if method == 0 { 4 } else { 5 };
    let order = br.bits(4).map_err(eof)? as u8;
    let nparts = 1usize << order;
    if n % nparts != 0 {
        return Err(fatal(
            "residual.partition.divisibility",
            format!("block size {n} is not divisible by 2^{order}"),
            frame,
        ));
    }
    let plen = n >> order;
    if plen < pred_order {
        // the first partition would hold a negative number of samples: undecodable
        return Err(fatal(
            "residual.partition.first",
            format!("partition length {plen} < predictor order {pred_order}"),
            frame,
        ));
    }
    if plen <= pred_order {
        issues.push(Issue {
            class: Class::Format,
            clause: "residual.partition.first",
            detail: format!("(block size >> order) = {plen} must be larger than predictor order {pred_order}"),
            frame,
        });
    }
    let mut params = Vec::with_capacity(nparts);
    let mut values: Vec<i64> = Vec::with_capacity(n - pred_order.min(n));
    for part in 0..nparts {
        let p = br.bits(pbits).map_err(eof)? as u8;
        let count = if part == 0 { plen - pred_order } else { plen };
        let escape = p == (1 << pbits) - 1;
        if escape {
            let w = br.bits(5).map_err(eof)? as u8;
            params.push((p, true, w));
            issues.push(Issue {
                class: Class::Format,
                clause: "residual.escape",
                detail: format!("escape partition (raw width {w}); C02 demands parameters below the escape code"),
                frame,
            });
            for _ in 0..count {
                values.push(br.signed(w as usize).map_err(eof)?);
            }
        } else {
            params.push((p, false, 0));
            for _ in 0..count {
                let q = br.unary().map_err(eof)?;
                let r = br.bits(p as usize).map_err(eof)?;
                // u = q * 2^p + r ; guard against absurd q
                if q >= (1u64 << 40) {
                    return Err(fatal("residual.quotient", format!("unary quotient {q}"), frame));
                }
                let u = (q << p) | r;
                let v: i64 = ((u >> 1) as i64) ^ -((u & 1) as i64);
                values.push(v);
            }
        }
    }
    for (i, v) in values.iter().enumerate() {
        if *v <= i64::from(i32::MIN) || *v > i64::from(i32::MAX) {
            issues.push(Issue {
                class: Class::Format,
                clause: "residual.range32",
                detail: format!("residual[{i}] = {v} is not representable (RFC: must be in (-2^31, 2^31))"),
                frame,
            });
            break;
        }
    }
    Ok(ResidualReport {
        method,
        order,
        params,
        values,
        bits: br.bitpos() - start,
    })
}

fn parse_subframe(
    br: &mut BitReader<'_>,
    n: usize,
    bps: u32,
    frame: Option<usize>,
    issues: &mut Vec<Issue>,
) -> Result<SubReport, Issue> {
    let start = br.bitpos();
    let eof = |_e: Eof| fatal("subframe.eof", "stream ends inside subframe".into(), frame);
    let pad = br.bit().map_err(eof)?;
    if pad != 0 {
        issues.push(Issue {
            class: Class::Format,
            clause: "subframe.padding",
            detail: "subframe padding bit is 1".into(),
            frame,
        });
    }
    let typ = br.bits(6).map_err(eof)? as u8;
    let wasted_flag = br.bit().map_err(eof)?;
    let mut wasted = 0u32;
    if wasted_flag == 1 {
        let k = br.unary().map_err(eof)?;
        if k + 1 >= u64::from(bps) {
            return Err(fatal("subframe.wasted", format!("wasted bits {} >= width {bps}", k + 1), frame));
        }
        wasted = k as u32 + 1;
    }
    let w = (bps - wasted) as usize;
    let lim_lo = -(1i64 << (w - 1));
    let lim_hi = (1i64 << (w - 1)) - 1;
    let mut wrapped = false;
    let mut rep = SubReport {
        kind: SubKind::Constant,
        bps,
        wasted,
        precision: 0,
        shift: 0,
        coefs: vec![],
        residual: None,
        bits: 0,
        samples: Vec::with_capacity(n),
    };
    match typ {
        0 => {
            let v = br.signed(w).map_err(eof)?;
            rep.samples.resize(n, v);
        }
        1 => {
            rep.kind = SubKind::Verbatim;
            for _ in 0..n {
                rep.samples.push(br.signed(w).map_err(eof)?);
            }
        }
        8..=12 => {
            let order = (typ - 8) as usize;
            rep.kind = SubKind::Fixed(order as u8);
            if order > n {
                return Err(fatal("subframe.order", format!("fixed order {order} > block size {n}"), frame));
            }
            if order >= n && n > 0 {
                issues.push(Issue {
                    class: Class::Format,
                    clause: "subframe.order",
                    detail: format!("predictor order {order} not below block size {n}"),
                    frame,
                });
            }
            for _ in 0..order {
                rep.samples.push(br.signed(w).map_err(eof)?);
            }
            let res = parse_residual(br, n, order, frame, issues)?;
            let c = FIXED_COEFS[order];
            for (i, e) in res.values.iter().enumerate() {
                let t = order + i;
                let mut pred = 0i64;
                for (j, cj) in c.iter().enumerate() {
                    pred += cj * rep.samples[t - 1 - j];
                }
                rep.samples.push(wrap32(pred + e, &mut wrapped));
            }
            rep.residual = Some(res);
        }
        32..=63 => {
            let order = (typ - 31) as usize;
            rep.kind = SubKind::Lpc(order as u8);
            if order > n {
                return Err(fatal("subframe.order", format!("lpc order {order} > block size {n}"), frame));
            }
            if order >= n {
                issues.push(Issue {
                    class: Class::Format,
                    clause: "subframe.order",
                    detail: format!("predictor order {order} not below block size {n}"),
                    frame,
                });
            }
            for _ in 0..order {
                rep.samples.push(br.signed(w).map_err(eof)?);
            }
            let pc = br.bits(4).map_err(eof)? as u32;
            if pc == 15 {
                return Err(fatal("lpc.precision.invalid", "precision code 1111".into(), frame));
            }
            rep.precision = pc + 1;
            let shift = br.signed(5).map_err(eof)? as i32;
            rep.shift = shift;
            if shift < 0 {
                return Err(fatal("lpc.shift.negative", format!("shift {shift}"), frame));
            }
            for _ in 0..order {
                rep.coefs.push(br.signed(rep.precision as usize).map_err(eof)? as i32);
            }
            let res = parse_residual(br, n, order, frame, issues)?;
            for (i, e) in res.values.iter().enumerate() {
                let t = order + i;
                let mut pred = 0i64;
                for (j, cj) in rep.coefs.iter().enumerate() {
                    pred += i64::from(*cj) * rep.samples[t - 1 - j];
                }
                rep.samples.push(wrap32((pred >> shift) + e, &mut wrapped));
            }
            rep.residual = Some(res);
        }
        _ => {
            return Err(fatal("subframe.type.reserved", format!("subframe type {typ:06b}"), frame));
        }
    }
    if wrapped {
        issues.push(Issue {
            class: Class::Note,
            clause: "subframe.prediction.wraps32",
            detail: "prediction + residual is only correct modulo 2^32 (decoded samples are stored in 32 bits, as every real decoder does)".into(),
            frame,
        });
    }
    // range check before applying wasted bits
    if let Some((i, v)) = rep
        .samples
        .iter()
        .enumerate()
        .find(|(_, v)| **v < lim_lo || **v > lim_hi)
    {
        issues.push(Issue {
            class: Class::Format,
            clause: "subframe.sample.range",
            detail: format!("sample[{i}] = {v} outside {w}-bit range"),
            frame,
        });
    }
    if wasted > 0 {
        for v in rep.samples.iter_mut() {
            *v <<= wasted;
        }
    }
    rep.bits = br.bitpos() - start;
    Ok(rep)
}

/// Decodes one frame starting at byte `offset`. `info` supplies defaults for the "get from
/// STREAMINFO" codes (None => such codes are fatal).
pub fn parse_frame(
    data: &[u8],
    offset: usize,
    info: Option<&StreamInfoRaw>,
    frame: Option<usize>,
    issues: &mut Vec<Issue>,
) -> Result<FrameReport, Issue> {
    let hdr = parse_frame_header(&data[offset..], frame, issues)?;
    let bps = match (hdr.bps, info) {
        (Some(b), _) => b,
        (None, Some(i)) => i.bps,
        (None, None) => {
            return Err(fatal("frame.samplesize.unknown", "no STREAMINFO".into(), frame));
        }
    };
    if bps > 32 || bps < 4 {
        return Err(fatal("frame.samplesize", format!("bps {bps}"), frame));
    }
    let n = hdr.block_size;
    let nch = match hdr.assign {
        Assign::Indep(c) => c as usize,
        _ => 2,
    };
    let mut br = BitReader::at(data, offset + hdr.header_len);
    let mut subs = Vec::with_capacity(nch);
    for ch in 0..nch {
        let side = matches!(
            (hdr.assign, ch),
            (Assign::LeftSide, 1) | (Assign::SideRight, 0) | (Assign::MidSide, 1)
        );
        let b = bps + u32::from(side);
        subs.push(parse_subframe(&mut br, n, b, frame, issues)?);
    }
    let mut padding_bits = 0;
    while !br.is_aligned() {
        padding_bits += 1;
        match br.bit() {
            Ok(0) => {}
            Ok(_) => {
                issues.push(Issue {
                    class: Class::Format,
                    clause: "frame.padding",
                    detail: "non-zero padding bit before CRC-16".into(),
                    frame,
                });
            }
            Err(_) => return Err(fatal("frame.eof", "stream ends in padding".into(), frame)),
        }
    }
    let end = br.bitpos() / 8;
    if data.len() < end + 2 {
        return Err(fatal("frame.eof", "stream ends before CRC-16".into(), frame));
    }
    let c = crc16(&data[offset..end]);
    let stored = u16::from(data[end]) << 8 | u16::from(data[end + 1]);
    if c != stored {
        issues.push(Issue {
            class: Class::Integrity,
            clause: "frame.crc16",
            detail: format!("frame CRC-16 is {stored:04x}, computed {c:04x}"),
            frame,
        });
    }
    // un-mix
    let mut channels: Vec<Vec<i64>> = subs.iter().map(|s| s.samples.clone()).collect();
    match hdr.assign {
        Assign::Indep(_) => {}
        Assign::LeftSide => {
            for t in 0..n {
                channels[1][t] = channels[0][t] - channels[1][t];
            }
        }
        Assign::SideRight => {
            for t in 0..n {
                channels[0][t] += channels[1][t];
            }
        }
        Assign::MidSide => {
            for t in 0..n {
                let s = channels[1][t];
                let m = (channels[0][t] << 1) | (s & 1);
                channels[0][t] = (m + s) >> 1;
                channels[1][t] = (m - s) >> 1;
            }
        }
    }
    let lo = -(1i64 << (bps - 1));
    let hi = (1i64 << (bps - 1)) - 1;
    'outer: for (ch, c) in channels.iter().enumerate() {
        for (t, v) in c.iter().enumerate() {
            if *v < lo || *v > hi {
                issues.push(Issue {
                    class: Class::Format,
                    clause: "frame.sample.range",
                    detail: format!("channel {ch} sample[{t}] = {v} outside {bps}-bit range"),
                    frame,
                });
                break 'outer;
            }
        }
    }
    Ok(FrameReport {
        offset,
        len: end + 2 - offset,
        header: hdr,
        subframes: subs,
        padding_bits,
        channels,
    })
}

// ---------------------------------------------------------------- stream

pub fn parse_streaminfo(body: &[u8]) -> StreamInfoRaw {
    let mut br = BitReader::new(body);
    let mut g = |n: usize| br.bits(n).unwrap_or(0);
    let min_block = g(16) as u32;
    let max_block = g(16) as u32;
    let min_frame = g(24) as u32;
    let max_frame = g(24) as u32;
    let rate = g(20) as u32;
    let channels = g(3) as u32 + 1;
    let bps = g(5) as u32 + 1;
    let total = g(36);
    let mut md5 = [0u8; 16];
    md5.copy_from_slice(&body[18..34]);
    StreamInfoRaw {
        is_last: false,
        min_block,
        max_block,
        min_frame,
        max_frame,
        rate,
        channels,
        bps,
        total,
        md5,
    }
}

/// MD5 of interleaved samples serialised little-endian in ceil(bps/8) bytes (harness's own
/// serialisation; the md-5 crate only supplies the compression function).
pub fn md5_of_pcm(pcm: &[i32], bps: u32) -> [u8; 16] {
    let bytes = ((bps + 7) / 8) as usize;
    let mut h = md5::Md5::new();
    let mut buf = Vec::with_capacity(4096 * 4);
    for chunk in pcm.chunks(4096) {
        buf.clear();
        for v in chunk {
            let le = v.to_le_bytes();
            buf.extend_from_slice(&le[..bytes]);
        }
        h.update(&buf);
    }
    h.finalize().into()
}

/// Decodes and validates a whole stream. Never panics.
pub fn decode_stream(data: &[u8]) -> Report {
    let mut rep = Report::default();
    if data.len() < 4 || &data[..4] != b"fLaC" {
        rep.issues.push(fatal("stream.marker", "missing fLaC marker".into(), None));
        return rep;
    }
    let mut p = 4usize;
    let mut first = true;
    loop {
        if data.len() < p + 4 {
            rep.issues
                .push(fatal("metadata.eof", "stream ends inside metadata header".into(), None));
            return rep;
        }
        let is_last = data[p] & 0x80 != 0;
        let typ = data[p] & 0x7F;
        let len = (data[p + 1] as usize) << 16 | (data[p + 2] as usize) << 8 | data[p + 3] as usize;
        p += 4;
        if data.len() < p + len {
            rep.issues
                .push(fatal("metadata.eof", "stream ends inside metadata block".into(), None));
            return rep;
        }
        if first {
            if typ != 0 || len != 34 {
                rep.issues.push(fatal(
                    "metadata.first",
                    format!("first block has type {typ} length {len}, expected STREAMINFO/34"),
                    None,
                ));
                return rep;
            }
            rep.info = parse_streaminfo(&data[p..p + 34]);
            rep.info.is_last = is_last;
            first = false;
        } else {
            if typ == 0 {
                rep.issues.push(Issue {
                    class: Class::Format,
                    clause: "metadata.streaminfo.duplicate",
                    detail: "second STREAMINFO".into(),
                    frame: None,
                });
            }
            if typ == 127 {
                rep.issues.push(Issue {
                    class: Class::Format,
                    clause: "metadata.type.forbidden",
                    detail: "block type 127".into(),
                    frame: None,
                });
            }
            rep.meta.push(MetaRaw { is_last, typ, len });
        }
        p += len;
        if is_last {
            break;
        }
    }
    rep.audio_offset = p;
    let info = rep.info.clone();
    let fmt = |clause: &'static str, detail: String| Issue {
        class: Class::Format,
        clause,
        detail,
        frame: None,
    };
    let bnd = |clause: &'static str, detail: String, frame: Option<usize>| Issue {
        class: Class::Bounds,
        clause,
        detail,
        frame,
    };
    if info.bps < 4 {
        rep.issues.push(fmt("streaminfo.bps", format!("bits per sample {}", info.bps)));
    }
    if info.min_block < 16 {
        rep.issues.push(bnd(
            "streaminfo.minblock.lt16",
            format!("min block size {} < 16", info.min_block),
            None,
        ));
    }
    if info.max_block < 16 {
        rep.issues.push(bnd(
            "streaminfo.maxblock.lt16",
            format!("max block size {} < 16", info.max_block),
            None,
        ));
    }
    if info.min_block > info.max_block {
        rep.issues.push(bnd(
            "streaminfo.minblock.gt.max",
            format!("min block {} > max block {}", info.min_block, info.max_block),
            None,
        ));
    }
    if info.min_frame != 0 && info.max_frame != 0 && info.min_frame > info.max_frame {
        rep.issues.push(bnd(
            "streaminfo.minframe.gt.max",
            format!("min frame {} > max frame {}", info.min_frame, info.max_frame),
            None,
        ));
    }
    // frames
    let mut idx = 0usize;
    let mut expected_sample: u64 = 0;
    let mut variable0: Option<bool> = None;
    while p < data.len() {
        let mut issues = std::mem::take(&mut rep.issues);
        let fr = parse_frame(data, p, Some(&info), Some(idx), &mut issues);
        rep.issues = issues;
        let fr = match fr {
            Ok(f) => f,
            Err(mut e) => {
                if idx > 0 || p > rep.audio_offset {
                    e.detail = format!("{} (at byte {p}; bytes after the last good frame)", e.detail);
                }
                rep.issues.push(e);
                break;
            }
        };
        let h = &fr.header;
        if let Some(v0) = variable0 {
            if v0 != h.variable {
                rep.issues.push(Issue {
                    class: Class::Format,
                    clause: "frame.blocking.changes",
                    detail: "blocking strategy bit changes inside the stream".into(),
                    frame: Some(idx),
                });
            }
        } else {
            variable0 = Some(h.variable);
        }
        if h.variable {
            if h.number != expected_sample {
                rep.issues.push(Issue {
                    class: Class::Format,
                    clause: "frame.number.sequence",
                    detail: format!("sample number {} expected {}", h.number, expected_sample),
                    frame: Some(idx),
                });
            }
        } else if h.number != idx as u64 {
            rep.issues.push(Issue {
                class: Class::Format,
                clause: "frame.number.sequence",
                detail: format!("frame number {} expected {}", h.number, idx),
                frame: Some(idx),
            });
        }
        expected_sample += h.block_size as u64;
        if let Some(r) = h.rate {
            if r != info.rate {
                rep.issues.push(Issue {
                    class: Class::Format,
                    clause: "frame.rate.mismatch",
                    detail: format!("frame rate {r} vs STREAMINFO {}", info.rate),
                    frame: Some(idx),
                });
            }
        }
        if let Some(b) = h.bps {
            if b != info.bps {
                rep.issues.push(Issue {
                    class: Class::Format,
                    clause: "frame.bps.mismatch",
                    detail: format!("frame bps {b} vs STREAMINFO {}", info.bps),
                    frame: Some(idx),
                });
            }
        }
        if fr.channels.len() as u32 != info.channels {
            rep.issues.push(fatal(
                "frame.channels.mismatch",
                format!("frame has {} channels, STREAMINFO {}", fr.channels.len(), info.channels),
                Some(idx),
            ));
            break;
        }
        if h.block_size as u32 > info.max_block {
            rep.issues.push(bnd(
                "streaminfo.maxblock.exceeded",
                format!("frame block size {} > max block {}", h.block_size, info.max_block),
                Some(idx),
            ));
        }
        if info.max_frame != 0 && fr.len as u32 > info.max_frame {
            rep.issues.push(bnd(
                "streaminfo.maxframe.exceeded",
                format!("frame length {} > max frame size {}", fr.len, info.max_frame),
                Some(idx),
            ));
        }
        if info.min_frame != 0 && (fr.len as u32) < info.min_frame {
            rep.issues.push(bnd(
                "streaminfo.minframe.exceeded",
                format!("frame length {} < min frame size {}", fr.len, info.min_frame),
                Some(idx),
            ));
        }
        // interleave
        let n = h.block_size;
        let nch = fr.channels.len();
        let base = rep.pcm.len();
        rep.pcm.resize(base + n * nch, 0);
        for (ch, c) in fr.channels.iter().enumerate() {
            for (t, v) in c.iter().enumerate() {
                rep.pcm[base + t * nch + ch] = *v as i32;
            }
        }
        p += fr.len;
        rep.frames.push(fr);
        idx += 1;
    }
    // block size of non-final frames vs min_block
    let nf = rep.frames.len();
    for (i, f) in rep.frames.iter().enumerate() {
        if i + 1 < nf && (f.header.block_size as u32) < info.min_block {
            rep.issues.push(bnd(
                "streaminfo.minblock.exceeded",
                format!(
                    "non-final frame {} has block size {} < min block {}",
                    i, f.header.block_size, info.min_block
                ),
                Some(i),
            ));
            break;
        }
    }
    if info.min_block == info.max_block {
        // fixed block size stream: all but the last frame must have exactly that size
        for (i, f) in rep.frames.iter().enumerate() {
            if i + 1 < nf && f.header.block_size as u32 != info.max_block {
                rep.issues.push(fmt(
                    "frame.blocksize.fixed",
                    format!(
                        "min=max block {} but non-final frame {} has {}",
                        info.max_block, i, f.header.block_size
                    ),
                ));
                break;
            }
        }
    }
    if info.total != 0 && info.total != expected_sample && rep.fatal().is_none() {
        rep.issues.push(Issue {
            class: Class::Integrity,
            clause: "streaminfo.total",
            detail: format!("total samples {} but frames hold {}", info.total, expected_sample),
            frame: None,
        });
    }
    rep.md5_computed = md5_of_pcm(&rep.pcm, info.bps.clamp(4, 32));
    if info.md5 != [0u8; 16] && rep.fatal().is_none() && rep.md5_computed != info.md5 {
        rep.issues.push(Issue {
            class: Class::Integrity,
            clause: "streaminfo.md5",
            detail: format!("MD5 {:02x?} but decoded audio has {:02x?}", info.md5, rep.md5_computed),
            frame: None,
        });
    }
    rep
}

#[cfg(test)]
mod tests {
    use super::*;

    #[test]
    fn crc_known_values() {
        // CRC-8 (poly 7) of "123456789" = 0xF4 ; CRC-16/UMTS (BUYPASS) = 0xFEE8
        assert_eq!(crc8(b"123456789"), 0xF4);
        assert_eq!(crc16(b"123456789"), 0xFEE8);
    }

    #[test]
    fn coded_numbers() {
        assert_eq!(decode_coded_number(&[0x56]).unwrap(), (0x56, 1, true));
        assert_eq!(decode_coded_number(&[0xE1, 0x80, 0xA4]).unwrap(), (0x1024, 3, true));
        assert_eq!(
            decode_coded_number(&[0xFE, 0xBF, 0xBF, 0xBF, 0xBF, 0xBF, 0xBF]).unwrap(),
            (0xF_FFFF_FFFF, 7, true)
        );
        // overlong form of 0x56
        assert_eq!(decode_coded_number(&[0xC1, 0x96]).unwrap(), (0x56, 2, false));
        assert!(decode_coded_number(&[0xC1, 0x16]).is_err());
        assert!(decode_coded_number(&[0xFF]).is_err());
    }

    #[test]
    fn bitreader() {
        let d = [0b1010_0000u8, 0xFF, 0x00, 0x01];
        let mut br = BitReader::new(&d);
        assert_eq!(br.bits(3).unwrap(), 0b101);
        assert_eq!(br.signed(5).unwrap(), 0);
        assert_eq!(br.signed(8).unwrap(), -1);
        assert_eq!(br.unary().unwrap(), 15);
        assert!(br.bit().is_err());
    }

    /// Hand-assembled stream: mono 8-bit, one frame of 4 samples, constant subframe (value -3).
    #[test]
    fn hand_built_constant_frame() {
        let mut s: Vec<u8> = b"fLaC".to_vec();
        s.extend_from_slice(&[0x80, 0, 0, 34]);
        let mut si = vec![0u8; 34];
        si[0] = 0x10; // min block 4096
        si[2] = 0x10; // max block 4096
        // rate 8000 (20 bits) = 0x01F40 ; channels-1 = 0 ; bps-1 = 7
        // bits: 0000 0001 1111 0100 0000 | 000 | 00111 | total(36)=4
        si[10] = 0x01;
        si[11] = 0xF4;
        si[12] = 0x00 | 0b0000; // low 4 bits of rate = 0, then 3 bits channels (000) + 1 bit of bps
        si[12] = 0b0000_0000;
        si[13] = 0b0111_0000; // remaining 4 bits of bps-1 (0111) then total high 4 bits
        si[17] = 4;
        s.extend_from_slice(&si);
        let mut f = vec![0xFF, 0xF8, 0x64, 0x02, 0x00, 0x03];
        let c = crc8(&f);
        f.push(c);
        f.push(0x00); // constant subframe header
        f.push(0xFD); // -3
        let c16 = crc16(&f);
        f.push((c16 >> 8) as u8);
        f.push(c16 as u8);
        s.extend_from_slice(&f);
        let rep = decode_stream(&s);
        assert!(rep.fatal().is_none(), "{:?}", rep.issues);
        assert_eq!(rep.info.rate, 8000);
        assert_eq!(rep.info.bps, 8);
        assert_eq!(rep.info.channels, 1);
        assert_eq!(rep.info.total, 4);
        assert_eq!(rep.pcm, vec![-3, -3, -3, -3]);
        assert_eq!(rep.frames[0].header.block_size, 4);
        assert!(!rep.has(Class::Integrity), "{:?}", rep.issues);
        // flip a payload bit -> CRC16 issue
        let mut s2 = s.clone();
        let l = s2.len();
        s2[l - 3] ^= 1;
        let rep2 = decode_stream(&s2);
        assert!(rep2.issues.iter().any(|i| i.clause == "frame.crc16"));
        // trailing garbage -> fatal
        let mut s3 = s.clone();
        s3.push(0);
        assert!(decode_stream(&s3).fatal().is_some());
    }
}
