//! `fvmon mini <ID> <seed> <scale>`: tiny in-process workloads for interpreters and heavy
//! sanitizers (Miri: ~10^4 slower than native; also usable under TSan/ASan). No child processes,
//! no /proc, no files: the oracles are the same as in the full monitors, the workloads are cut
//! down to 32..64-sample blocks. Output protocol (one line each, parsed by tools/sanpass.py):
//!   MINI-VIOLATION <sig> :: <detail>
//!   MINI-STAT <key>=<value>
//!   MINI-DONE <ID> evaluations=<n> violations=<n>
//! Undefined behaviour, data races, deadlocks and leaked threads are reported by the
//! interpreter / sanitizer itself (process aborts with its own diagnostic).

use crate::common::{Ctx, Outcome, Tier};
use crate::gen::{self, Audio, ConfigOpts, Fault, FillMode};
use crate::mon_par::{self, Scenario};
use crate::mon_stream::{self, gen_case, observe, Case, Limits};
use crate::prng::Rng;
use crate::sched::{self, Policy, POLICIES};
use std::num::NonZeroUsize;
use std::sync::Arc;
use std::time::Duration;

fn tiny_limits() -> Limits {
    Limits {
        max_samples: 300,
        max_blocks: 2,
        max_block_size: 100,
        widths: gen::WIDTHS.to_vec(),
        channel_choices: vec![1, 2, 2, 3],
        opts: ConfigOpts { multithread: Some(false), min_max_parameter: 4, no_experimental: false },
    }
}

fn tiny_case(rng: &mut Rng) -> Case {
    let mut c = gen_case(rng, &tiny_limits());
    c.cfg.multithread = false;
    // blocks of >= 64 samples go through the predictors; make most cases have one
    if rng.chance(2, 3) && c.audio.frames() < 64 {
        let ch = c.audio.channels;
        let (bps, rate) = (c.audio.bps, c.audio.rate);
        c.block = 64 + rng.usize_below(33);
        c.cfg.block_size = c.block;
        let len = c.block + rng.usize_below(20);
        c.audio = Arc::new(gen::gen_audio(rng, ch, bps, rate, len));
    }
    // keep the interpreter's cost bounded: LPC order <= 8
    c.cfg.subframe_coding.qlpc.lpc_order = c.cfg.subframe_coding.qlpc.lpc_order.min(8);
    c
}

fn tiny_par_scenario(seed: u64, idx: u64, faulty: bool) -> Scenario {
    let mut rng = Rng::for_case(seed, if faulty { "mini.C06" } else { "mini.C05" }, idx);
    let bps = *rng.pick(&[16usize, 8, 24, 12, 20]);
    let channels = *rng.pick(&[1usize, 2]);
    let block = 32usize;
    let frames = 2 + (idx as usize % 3);
    let tail = if rng.flip() { rng.usize_below(block) } else { 0 };
    let len = frames * block + tail;
    let mut samples = vec![0i32; len * channels];
    for ch in 0..channels {
        for b in 0..(len + block - 1) / block {
            let fam = *rng.pick(&["silence", "noise_full", "sine", "tiny_noise", "alt2"]);
            let s = b * block;
            let e = ((b + 1) * block).min(len);
            let c = gen::gen_channel(&mut rng, fam, bps, e - s);
            for (t, x) in c.iter().enumerate() {
                samples[(s + t) * channels + ch] = *x;
            }
        }
    }
    let mut cfg = gen::gen_config(&mut rng, &ConfigOpts { multithread: Some(true), min_max_parameter: 6, no_experimental: false });
    cfg.subframe_coding.qlpc.lpc_order = cfg.subframe_coding.qlpc.lpc_order.min(6);
    cfg.block_size = block;
    let nreads = (len + block - 1) / block;
    let faults = if faulty {
        let over = 1i32 << (bps - 1);
        match idx % 4 {
            0 => vec![Fault::ErrAt(rng.usize_below(nreads + 1))],
            1 => vec![Fault::BadAt { read: rng.usize_below(nreads), pos: (idx / 4 % 3) as u8, ch: rng.usize_below(channels), value: over }],
            2 => vec![Fault::BadAt { read: rng.usize_below(nreads), pos: 2, ch: 0, value: -over - 1 }, Fault::ErrAt(nreads)],
            _ => vec![Fault::ErrAt(0)],
        }
    } else {
        vec![]
    };
    Scenario {
        audio: Arc::new(Audio { channels, bps, rate: 44100, samples, recipe: "mini-mixed".into() }),
        cfg,
        block,
        workers: Some(1 + (idx as usize / 2) % 3),
        env: None,
        policy: if cfg!(miri) { [Policy::None, Policy::Yield][(idx % 2) as usize] } else { POLICIES[(idx % POLICIES.len() as u64) as usize] },
        faults,
        mode: if rng.flip() { FillMode::Int } else { FillMode::Bytes },
        hint: rng.flip(),
        label: format!("mini#{idx}"),
        short_reads: 0,
        bare_eof: idx % 2 == 1,
        empty_fill_every: 0,
        err_flavour: 0,
        stall: None,
    }
}

fn stream_oracles(ctx: &Ctx, sub: &str, idx: u64, case: &Case, out: &mut Outcome) {
    match observe(case) {
        Ok(obs) => {
            out.evaluations += 1;
            mon_stream::note_coverage(case, &obs, out);
            mon_stream::oracle_c01(ctx, sub, idx, case, &obs, out);
            mon_stream::oracle_c02(ctx, sub, idx, case, &obs, out);
            mon_stream::oracle_c03(ctx, sub, idx, case, &obs, out);
            mon_stream::oracle_c04(ctx, sub, idx, case, &obs, out);
            mon_stream::oracle_c09(ctx, sub, idx, case, &obs, out);
            mon_stream::oracle_c13(ctx, sub, idx, case, &obs, out);
            mon_stream::oracle_c15(ctx, sub, idx, case, &obs, out);
            mon_stream::oracle_c08_stream(ctx, sub, idx, &case.describe(), &obs.stream, out);
        }
        Err(e) => mon_stream::report_obs_err(ctx, sub, idx, case, &e, out),
    }
}

pub fn main(args: &[String]) -> i32 {
    let id = args.first().cloned().unwrap_or_default();
    let seed: u64 = args.get(1).and_then(|s| s.parse().ok()).unwrap_or(1);
    let scale: u64 = args.get(2).and_then(|s| s.parse().ok()).unwrap_or(1).max(1);
    sched::install();
    let mut ctx = Ctx::new(&id, Tier::Quick, seed, Duration::from_secs(36_000));
    ctx.threads = 1;
    let mut out = Outcome::default();
    match id.as_str() {
        // stream-level oracles on tiny single-thread encodes (reaches the SimdVec transmutes,
        // every subframe coder, the bit writer, the parser and Decode)
        "C01" | "C02" | "C03" | "C04" | "C08" | "C09" | "C13" | "C15" => {
            for i in 0..2 * scale {
                let mut rng = Rng::for_case(seed, "mini.stream", i);
                let case = tiny_case(&mut rng);
                stream_oracles(&ctx, "mini", i, &case, &mut out);
            }
        }
        "C05" | "C06" => {
            for i in 0..scale {
                let sc = tiny_par_scenario(seed, i, id == "C06");
                let v = mon_par::exec_scenario(&id, &sc);
                out.evaluations += 1;
                for viol in v["violations"].as_array().cloned().unwrap_or_default() {
                    out.violation(viol[0].as_str().unwrap_or("?"), format!("{} [{} W={:?} faults={:?}]", viol[1].as_str().unwrap_or("?"), sc.label, sc.workers, sc.faults), serde_json::json!({}));
                }
                out.count(&format!("par_result_{}", v["stats"]["par"].as_str().unwrap_or("?")));
                out.add("events_recorded", v["summary"]["events"].as_u64().unwrap_or(0));
                out.add("frames_assigned", v["summary"]["frames_assigned"].as_u64().unwrap_or(0));
                println!("MINI-STAT interleaving={}", v["summary"]["interleaving"].as_str().unwrap_or("?"));
            }
        }
        "C10" => crate::mon_c::mini_c10(&ctx, scale, &mut out),
        "C11" => crate::mon_b::mini_c11(&ctx, scale, &mut out),
        "C12" => crate::mon_b::mini_c12(&ctx, scale, &mut out),
        "C14" => crate::mon_b::mini_c14(&ctx, scale, &mut out),
        "C16" => crate::mon_d::mini_c16(&ctx, scale, &mut out),
        other => {
            eprintln!("mini: no workload for {other}");
            return 64;
        }
    }
    // helper-thread panics nobody consumed
    for p in crate::common::take_helper_panics() {
        out.violation(format!("helper-thread-panic|{}", p.site()), p.short(), serde_json::json!({}));
    }
    let known = crate::common::Known::load();
    let mut nv = 0;
    for v in &out.violations {
        if known.matches(&id, &v.sig) {
            println!("MINI-KNOWN {} :: {}", v.sig, v.detail.replace('\n', " "));
        } else {
            println!("MINI-VIOLATION {} :: {}", v.sig, v.detail.replace('\n', " "));
            nv += 1;
        }
    }
    for r in &out.inconclusive {
        println!("MINI-INCONCLUSIVE {}", r.replace('\n', " "));
    }
    for (k, v) in &out.stats {
        println!("MINI-STAT {k}={v}");
    }
    println!("MINI-DONE {id} evaluations={} violations={nv}", out.evaluations);
    i32::from(nv > 0)
}
