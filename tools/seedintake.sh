#!/bin/bash
# tools/seedintake.sh <lane> <stage-dir> <prop:letter>...   (triage of freshly written seeded changes)
# For every item: confirm it independently (tools/seedverify.sh in the writer's worktree
# <stage-dir>/<prop>), then run the quick check of its property against it in a scratch copy
# (tools/seedrun.sh, lane-private directory /tmp/seedrun-<lane>). One result line per item in
# <stage-dir>/out/<prop>/<letter>.result. Nothing here touches /repo's working tree. The checks run
# from a snapshot of /verif's HEAD commit.
lane=$1; stage=$2; shift 2
for item in "$@"; do
  p=${item%%:*}; l=${item##*:}
  o=$stage/out/$p
  v=$(/verif/tools/seedverify.sh $stage/$p $o/$l.patch $o/${l}_demo.rs 2>&1 | tail -1)
  # run the COMMITTED checks (a half-edited working tree must not decide anything)
  rm -rf /tmp/verif-snap-$lane; mkdir -p /tmp/verif-snap-$lane; git -C /verif archive HEAD | tar -x -C /tmp/verif-snap-$lane
  r=$(VERIF_SRC=/tmp/verif-snap-$lane SEEDRUN_DIR=/tmp/seedrun-$lane /verif/tools/seedrun.sh $p-$l $o/$l.patch quick $p 2>&1 | tail -1)
  sig=$(grep -h "^  sig:" /tmp/seedrun-$lane/out/$p-$l.$p.log 2>/dev/null | sort | uniq -c | sort -rn | head -3 | tr '\n' ';')
  echo "$p-$l | $v | $r | $sig" | tee $o/$l.result
done
