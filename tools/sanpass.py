#!/usr/bin/env python3
"""Sanitizer-pass orchestration for ./check (Miri shards, ASan/TSan runs of the monitors, libFuzzer).

Every pass writes $ROOT/target/san/<ID>.<pass>.json:
  {"pass", "status": held|violated|inconclusive, "evaluations", "violations": [...], ...}
which the release-build monitor run merges into evidence/<ID>.json (coverage.sanitizer_passes) and
folds into its exit code. A pass prints `VIOLATION property=<ID> replay=<path>` itself for what the
sanitizer (not the monitor's oracle) reported: the replay path is the sanitizer's log, which holds
the stacks, and the command that reproduces it.

Verdict discipline: only a diagnostic of the sanitizer/interpreter about the program (UB, data race,
deadlock, leaked thread/memory, heap error) or a MINI-VIOLATION line of an oracle is a violation.
A crash without such a diagnostic, an unsupported operation, a build failure or a time-out is
inconclusive.
"""
import json, os, re, subprocess, sys, time, glob, hashlib, shutil

ROOT = os.environ.get("VERIF_ROOT", "/verif")
T = os.path.join(ROOT, "target")
SAN = os.path.join(T, "san")
HOOK = "--cfg flacenc_verif"
SEED = int(os.environ.get("VERIF_SEED", "1") or 1)


def write_summary(pid, pas, summary):
    os.makedirs(SAN, exist_ok=True)
    summary.setdefault("pass", pas)
    p = os.path.join(SAN, f"{pid}.{pas}.json")
    with open(p + ".tmp", "w") as f:
        json.dump(summary, f, indent=1)
    os.replace(p + ".tmp", p)
    return p


def known_sigs(pid):
    out = []
    try:
        for line in open(os.path.join(ROOT, "known_findings.txt")):
            line = line.strip()
            if line.startswith("known:") and f"property={pid} " in line:
                m = re.search(r"sig=(.*?)(?:  # |$)", line)
                if m:
                    out.append(m.group(1).strip())
    except OSError:
        pass
    return out


def rc_of(status):
    return {"held": 0, "violated": 1}.get(status, 2)


# ------------------------------------------------------------------ native sanitizers (asan/tsan)

REPORT_RE = {
    "asan": re.compile(r"==\d+==ERROR: (AddressSanitizer|LeakSanitizer): ([^\n]*)"),
    "tsan": re.compile(r"WARNING: ThreadSanitizer: ([^\n(]*)"),
}


def first_repo_frames(block, n=2):
    """first n frames of a report block that are inside the repository or the harness"""
    fr = []
    for m in re.finditer(r"#\d+ \S+ in (\S+) (\S+)", block):
        fn, loc = m.group(1), m.group(2)
        if "/repo/" in loc or "flacenc" in fn or "/seedrun/" in loc:
            fr.append(re.sub(r":\d+(:\d+)?$", "", loc.split("/src/")[-1]) + ":" + re.sub(r"::h[0-9a-f]{16}$", "", fn)[-60:])
            if len(fr) >= n:
                break
    return fr


def native(pid, tier, pas, binary):
    logbase = os.path.join(SAN, f"log.{pid}.{pas}")
    for f in glob.glob(logbase + ".*"):
        os.remove(f)
    env = dict(os.environ)
    env["VERIF_MODE"] = pas
    # the sanitized binary is 4-7x slower: always the quick workload, half the harness threads
    env.setdefault("VERIF_THREADS", "12")
    if pas == "tsan":
        env["TSAN_OPTIONS"] = f"halt_on_error=0 exitcode=66 log_path={logbase} history_size=4"
    else:
        # no leak detection: none of the properties is about heap leaks, and LeakSanitizer's exit-time
        # scan races with harness threads that are still running their thread-local destructors
        # (std::thread::scope returns when the closures are done, not when the threads are gone):
        # it reported per-thread scratch buffers of the library as "leaked" on the unchanged tree
        env["ASAN_OPTIONS"] = f"halt_on_error=1 exitcode=67 log_path={logbase} detect_leaks=0 detect_stack_use_after_return=0"
    t0 = time.time()
    try:
        p = subprocess.run([binary, "run", pid, "quick"], env=env, stdout=subprocess.PIPE, stderr=subprocess.STDOUT, text=True, timeout=3600)
        out, rc = p.stdout, p.returncode
    except subprocess.TimeoutExpired as e:
        out, rc = (e.stdout or ""), -9
    wall = time.time() - t0
    for line in out.splitlines():
        if line.startswith(("VIOLATION", "  sig:", "  detail:", "KNOWN-FINDING", "INCONCLUSIVE", "[" + pid)):
            print(line)
    # the monitor wrote its own summary (oracle verdicts); add the sanitizer's reports
    sp = os.path.join(SAN, f"{pid}.{pas}.json")
    try:
        summary = json.load(open(sp))
    except Exception:
        summary = {"status": "inconclusive", "evaluations": 0, "violations": [], "inconclusive": [f"the {pas} run ended with exit code {rc} without a summary"], "counters": {}}
    reports = {}
    nblocks = 0
    for f in sorted(glob.glob(logbase + ".*")):
        text = open(f, errors="replace").read()
        blocks = re.split(r"(?m)^(?==+\n?WARNING: ThreadSanitizer|==\d+==ERROR: )", text)
        for b in blocks:
            m = REPORT_RE[pas].search(b)
            if not m:
                continue
            nblocks += 1
            kind = (m.group(1) if pas == "tsan" else m.group(2)).strip()[:60]
            key = kind + " @ " + " <- ".join(first_repo_frames(b)) if first_repo_frames(b) else kind + " @ (no repository frame)"
            reports.setdefault(key, {"count": 0, "log": f})
            reports[key]["count"] += 1
    summary["sanitizer"] = {"tool": pas, "report_blocks": nblocks, "distinct_reports": [{"report": k, "count": v["count"], "log": v["log"]} for k, v in reports.items()], "exit_code": rc, "workload": "quick workload of the monitor (sanitized binary, children included)", "tier_requested": tier}
    summary["wall_s"] = round(wall, 1)
    if reports:
        summary["status"] = "violated"
        for k, v in reports.items():
            print(f"VIOLATION property={pid} replay={v['log']}")
            print(f"  sig: {pid}|{pas}|{k}")
            print(f"  detail: {pas} reported '{k}' {v['count']} time(s); re-run: ./check san {pas} {pid} quick")
    elif rc not in (0, 1, 2) and summary.get("status") == "held":
        summary["status"] = "inconclusive"
        summary.setdefault("inconclusive", []).append(f"{pas} run exited with {rc}")
    write_summary(pid, pas, summary)
    return rc_of(summary["status"])


# ------------------------------------------------------------------ Miri

MIRI_ERR = re.compile(r"^error: (.*)$", re.M)


def miri_shards(pid, tier):
    """(shards, scale, many_seeds) per property and tier"""
    par = pid in ("C05", "C06")
    if tier == "quick":
        return (4, 2, None)
    if par:
        return (16, 6, None)
    return (16, 4, None)


def miri(pid, tier):
    shards, scale, _ = miri_shards(pid, tier)
    shards = int(os.environ.get("VERIF_MIRI_SHARDS", shards))
    tdir = os.path.join(T, "miri")
    logdir = os.path.join(SAN, f"log.{pid}.miri")
    shutil.rmtree(logdir, ignore_errors=True)
    os.makedirs(logdir, exist_ok=True)
    procs = []
    t0 = time.time()
    for k in range(shards):
        env = dict(os.environ)
        env["RUSTFLAGS"] = HOOK
        # seeded schedule per shard; preemption on so that threads interleave inside critical regions
        env["MIRIFLAGS"] = f"-Zmiri-disable-isolation -Zmiri-seed={SEED * 1000 + k} -Zmiri-preemption-rate=0.02"
        env["CARGO_NET_OFFLINE"] = "true"
        env["VERIF_MODE"] = "miri"
        log = open(os.path.join(logdir, f"shard{k}.log"), "w")
        cmd = ["cargo", "+nightly", "miri", "run", "--offline", "--target-dir", tdir, "--", "mini", pid, str(SEED * 100 + k), str(scale)]
        procs.append((k, cmd, subprocess.Popen(cmd, cwd=os.path.join(ROOT, "harness"), env=env, stdout=log, stderr=subprocess.STDOUT), log))
    deadline = t0 + (900 if tier == "quick" else 5400)
    results = []
    for k, cmd, p, log in procs:
        try:
            rc = p.wait(timeout=max(1, deadline - time.time()))
        except subprocess.TimeoutExpired:
            p.kill()
            rc = -9
        log.close()
        results.append((k, rc))
    wall = time.time() - t0
    known = known_sigs(pid)
    evals = 0
    viol = {}
    incon = []
    inter = set()
    stats = {}
    done = 0
    for k, rc in results:
        path = os.path.join(logdir, f"shard{k}.log")
        text = open(path, errors="replace").read()
        m = re.search(r"MINI-DONE \S+ evaluations=(\d+) violations=(\d+)", text)
        if m:
            evals += int(m.group(1))
            done += 1
        for line in text.splitlines():
            if line.startswith("MINI-VIOLATION "):
                sig, _, det = line[len("MINI-VIOLATION "):].partition(" :: ")
                if sig in known:
                    continue
                viol.setdefault(sig, {"detail": det[:300], "log": path, "count": 0})["count"] += 1
            elif line.startswith("MINI-INCONCLUSIVE "):
                incon.append(line[len("MINI-INCONCLUSIVE "):][:200])
            elif line.startswith("MINI-STAT interleaving="):
                inter.add(line.split("=", 1)[1])
            elif line.startswith("MINI-STAT "):
                kv = line[len("MINI-STAT "):]
                if "=" in kv:
                    a, b = kv.split("=", 1)
                    try:
                        stats[a] = stats.get(a, 0) + int(b)
                    except ValueError:
                        pass
        errs = MIRI_ERR.findall(text)
        for e in errs:
            e = e.strip()
            if e.startswith("unsupported operation") or "could not compile" in e or e.startswith("process didn't exit successfully") or e.startswith("failed to") or "aborting due to" in e:
                if e.startswith("unsupported operation"):
                    incon.append(f"shard {k}: Miri: {e[:160]}")
                continue
            # UB, data race, deadlock, leaked memory/threads, abnormal termination: Miri's verdict on the program
            cls = re.sub(r"alloc\d+|0x[0-9a-f]+|\d+", "#", e)[:120]
            viol.setdefault(f"{pid}|miri|{cls}", {"detail": e[:300], "log": path, "count": 0})["count"] += 1
        if rc == -9:
            incon.append(f"shard {k}: wall-clock watchdog fired")
        elif not m and not errs:
            incon.append(f"shard {k}: ended with exit code {rc} without MINI-DONE (see {path})")
    status = "violated" if viol else ("inconclusive" if (incon or done == 0) else "held")
    summary = {
        "status": status, "tier": tier, "seed": SEED, "evaluations": evals, "shards": shards, "shards_completed": done,
        "distinct_interleavings": len(inter),
        "violations": [{"sig": s, "detail": v["detail"], "count": v["count"], "log": v["log"]} for s, v in viol.items()],
        "inconclusive": incon, "counters": stats, "wall_s": round(wall, 1),
        "tool": "cargo +nightly miri run (-Zmiri-disable-isolation, one -Zmiri-seed per shard, preemption rate 0.02): UB, data races, deadlock, leaked threads/memory; oracles of the monitor on tiny workloads",
    }
    write_summary(pid, "miri", summary)
    print(f"[{pid}] pass miri: {done}/{shards} shards, {evals} evaluations, {len(inter)} distinct interleavings, {len(viol)} violation signature(s), wall {wall:.0f}s")
    for s, v in viol.items():
        print(f"VIOLATION property={pid} replay={v['log']}")
        print(f"  sig: {s}")
        print(f"  detail: {v['detail']}")
    for r in incon[:5]:
        print(f"INCONCLUSIVE property={pid} reason=miri: {r}")
    return rc_of(status)


# ------------------------------------------------------------------ libFuzzer (C16)

def fuzz(pid, tier):
    fdir = os.path.join(ROOT, "fuzz")
    secs = int(os.environ.get("VERIF_FUZZ_SECS", "240"))
    corpus = os.path.join(T, "fuzz-corpus")
    art = os.path.join(SAN, f"log.{pid}.fuzz")
    shutil.rmtree(art, ignore_errors=True)
    os.makedirs(art, exist_ok=True)
    os.makedirs(corpus, exist_ok=True)
    # seed corpus: small emitted streams from the release harness
    relbin = os.path.join(T, "rel/release/fvmon")
    subprocess.run([relbin, "dump-streams", corpus, str(SEED), "60"], stdout=subprocess.DEVNULL, stderr=subprocess.DEVNULL)
    nseed = len(os.listdir(corpus))
    env = dict(os.environ)
    env["RUSTFLAGS"] = HOOK
    env["CARGO_NET_OFFLINE"] = "true"
    t0 = time.time()
    cmd = ["cargo", "+nightly", "fuzz", "run", "--fuzz-dir", fdir, "--target-dir", os.path.join(T, "fuzz"), "parse_stream", corpus, "--",
           f"-artifact_prefix={art}/", "-timeout=10", f"-max_total_time={secs}", "-fork=16", "-ignore_crashes=1", "-ignore_timeouts=1", "-ignore_ooms=1", "-rss_limit_mb=4096", "-max_len=4096", "-print_final_stats=1"]
    try:
        p = subprocess.run(cmd, cwd=fdir, env=env, stdout=subprocess.PIPE, stderr=subprocess.STDOUT, text=True, timeout=secs + 1500)
        out, rc = p.stdout, p.returncode
    except subprocess.TimeoutExpired as e:
        out, rc = (e.stdout or "") if isinstance(e.stdout, str) else "", -9
    wall = time.time() - t0
    open(os.path.join(art, "fuzz.log"), "w").write(out)
    execs = 0
    for m in re.finditer(r"#(\d+): cov: (\d+)", out):
        execs = max(execs, int(m.group(1)))
    cov = [int(m.group(2)) for m in re.finditer(r"#(\d+): cov: (\d+)", out)]
    crashes = sorted(glob.glob(os.path.join(art, "crash-*")))
    known = known_sigs(pid)
    viol = {}
    for c in crashes:
        # classify by panic site with the release harness (same parser, panic hook prints file)
        r = subprocess.run([relbin, "parse-file", c], stdout=subprocess.PIPE, stderr=subprocess.STDOUT, text=True)
        m = re.search(r"PARSE-PANIC (\S+) :: (.*)", r.stdout)
        if m:
            sig = f"C16|panic|{m.group(1)}"
            if sig in known:
                continue
            viol.setdefault(sig, {"detail": m.group(2)[:300], "log": c, "count": 0})["count"] += 1
        else:
            # crashed under ASan/libFuzzer but not in the release parser: keep as a sanitizer report
            viol.setdefault(f"C16|fuzz-crash-not-reproduced-in-release", {"detail": f"libFuzzer artifact {c}", "log": c, "count": 0})["count"] += 1
    status = "violated" if viol else ("held" if execs > 0 else "inconclusive")
    summary = {"status": status, "tier": tier, "seed": SEED, "evaluations": execs, "seed_corpus_files": nseed, "final_edge_coverage": (cov[-1] if cov else 0),
               "violations": [{"sig": s, "detail": v["detail"], "count": v["count"], "log": v["log"]} for s, v in viol.items()],
               "inconclusive": [] if execs > 0 else [f"libFuzzer did not run (exit {rc}); see {art}/fuzz.log"], "wall_s": round(wall, 1),
               "tool": f"cargo fuzz (libFuzzer + ASan, -fork=16, {secs}s) on component::parser::stream + Decode; oracle: no panic / no ASan report"}
    write_summary(pid, "fuzz", summary)
    print(f"[{pid}] pass fuzz: {execs} executions, {len(crashes)} crash artifacts, {len(viol)} violation signature(s), wall {wall:.0f}s")
    for s, v in viol.items():
        print(f"VIOLATION property={pid} replay={v['log']}")
        print(f"  sig: {s}")
        print(f"  detail: {v['detail']}")
    return rc_of(status)


def main():
    a = sys.argv[1:]
    if a[0] == "note":
        write_summary(a[1], a[2], {"status": a[3], "evaluations": 0, "violations": [], "inconclusive": [a[4]]})
        return 0
    if a[0] == "native":
        return native(a[1], a[2], a[3], a[4])
    if a[0] == "miri":
        return miri(a[1], a[2])
    if a[0] == "fuzz":
        return fuzz(a[1], a[2])
    print("usage: sanpass.py note|native|miri|fuzz ...", file=sys.stderr)
    return 64


if __name__ == "__main__":
    sys.exit(main())
