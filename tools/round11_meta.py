#!/usr/bin/env python3
# builds /verif/seeded/<id>/ for the round-11 seeds from /tmp/seed11/out/<P>/{S,T}.patch etc.
import json, os, shutil, glob
props = {json.loads(l)['id']: json.loads(l)['title'] for l in open('/verif/properties.jsonl')}
# id: (site, change, needs, strengthening-if-silent)
M = {
 'C03-U': ('src/par.rs encode_with_fixed_block_size (multi-thread)', '"hash inline when there is only one worker" special case feeds a clone of the Context and then reads the untouched original: MD5 of the empty string, total 0', 'multithread = true with exactly one worker (workers = Some(1), FLACENC_WORKERS=1, a single-CPU host)', ''),
 'C03-V': ('src/coding.rs encode_with_fixed_block_size (single-thread)', 'total taken from src.len_hint() whenever the source gives one (the defect fixed by 292c93b, re-introduced on one path)', 'multithread = false and a source whose hint differs from what it delivers (a partially read MemSource)', ''),
 'C06-U': ('src/par.rs ParFrameBuf::pop_encode_queue + constant::par::WORKER_IDLE_TIMEOUT', 'the worker\'s blocking recv() becomes recv_timeout(5 s) and a timeout is treated as a stop token', 'a fault-free source that stalls for more than 5 s in one read: every worker quits, later blocks are never encoded, the feeder blocks forever', 'C06 had no source that pauses: stall sub-workload (a fault-free source pausing 6.5 / 2.5 / 11 s mid-stream in the quick tier, up to 61 s in the thorough tier; the pause is slept in 20 ms slices so that the deadlock rule never mistakes it for a parked thread)'),
 'C06-V': ('src/source.rs FrameBuf::verify_samples', 'an out-of-range sample is reported as SourceError(InvalidFormat) instead of VerifyError: single-thread returns Err(Source), the unchanged multi-thread worker arm still folds it into Err(Config)', 'an out-of-range sample, both thread modes compared', ''),
 'C08-U': ('src/component/bitrepr.rs Lpc::write', 'warm-up loop rewritten with the 16-wide try_repeat! unroll idiom without the outer loop: orders 17..=24 write (order-16) * bps fewer bits than counted', 'an Lpc subframe of order above 16 (non-default qlpc.lpc_order)', ''),
 'C08-V': ('src/component/datatype.rs Stream (cached frame_bits) + bitrepr.rs Stream::count_bits', 'frame bits cached in add_frame; parser::stream adds frames through frames_mut().push, which bypasses the cache', 'a parser-produced Stream: reports marker + metadata bits only', ''),
 'C09-U': ('src/rice.rs + src/coding.rs select_order_and_encode_residual / encode_subframe', 'the Rice search returns an `exact` flag (false only when a finest-partition table was clamped) and the BitCount arm skips the exact re-count when it is true; merged tables still wrap at 2^28 unclamped', 'order_sel = BitCount and a crafted input (mono 24-bit, block 128, every sample +-2^20 with random signs): a 33 MB frame', ''),
 'C09-V': ('src/coding.rs try_stereo_coding', 'if both L and R fell back to verbatim while neither M nor S did, MidSide is chosen without comparing bit counts', 'independent full-scale uniform noise stereo at 8 or 12 bits per sample', ''),
 'C10-U': ('src/coding.rs fixed_lpc + new thread-local FIXED_LPC_MISSES', 'after 8 consecutive subframes on a thread where no fixed predictor beats verbatim the fixed-predictor search is skipped and retried only every 4th subframe', 'a smooth signal encoded after a run of white-noise blocks on the same thread', ''),
 'C10-V': ('src/lpc.rs new get_window_repeated + thread-local LAST_WINDOW', 'one-entry window cache keyed by the ADDRESS of the &Window and the size', 'the caller\'s configuration variable replaced in place with another window, same block size, same thread', ''),
 'C12-U': ('src/component/bitrepr.rs FixedLpc::write', 'warm-up packed into one word when order x bps <= 64; in the fallback loop a shadowed `status` drops the first sink error on a warm-up sample and the residual is still offered', 'a FixedLpc subframe written stand-alone with order 4 at 17 bits or more / order 3 at 24 bits or more and a fault on a warm-up write', 'C12\'s constructed FixedLpc subframes had warm-up 0..=2 at 16 bits: every order 0..=4 at 8..25 bits now'),
 'C12-V': ('src/component/bitrepr.rs SubFrame::write', 'on a sink error an extra align_to_byte() is issued as cleanup before the original error is returned', 'a direct SubFrame::write and a sink that still accepts small operations after failing, left off a byte boundary', ''),
 'C13-V': ('src/par.rs new worker_config() used by encode_with_fixed_block_size', 'worker threads get a config rebuilt field by field from Encoder::default() and the rebuild omits subframe_coding.prc: Rice parameters up to 14 instead of the configured maximum', 'multithread = true with a max_parameter small enough to bind', ''),
 'C14-U': ('src/arrayutils.rs new deinterleave_ch2_paired (stereo fast path of deinterleave)', 'loads one left/right pair per 64-bit word via align_to::<u64>(): for a slice on a 4-byte but not 8-byte boundary the right-channel value of the last sample keeps the previous block\'s value', 'stereo, integer delivery from a slice starting at an odd element index, at least 32 samples per block', 'every integer slice the harness handed over started at an even element of its allocation: integer slices at every element offset 0..=3 in turn (like the byte slices since round 3)'),
 'C15-U': ('src/component/parser.rs sample_rate_code', 'the two immediate-width cases merged into one range test that always reads 16 bits: the 8-bit kHz code swallows the CRC byte', 'a sample rate that is a multiple of 1000 Hz without a table entry (12 kHz, 64 kHz)', ''),
 'C15-V': ('src/component/parser.rs frame_header', '"reject instead of truncating" check < 2^31 placed before the blocking-strategy branch: it also hits 36-bit start-sample numbers', 'a variable-blocking frame whose start sample is 2^31 or more', 'C15 only round-tripped fixed-blocking frames of its own: framenum now also writes the same subframes under a variable-blocking header with start samples of 31..36 bits'),
 'C16-U': ('src/component/parser.rs constant() / verbatim()', 'subframes built with Constant::new / Verbatim::new + expect(): the constructors enforce the 32767 block-size limit, a frame announcing 32768 or more panics', 'a frame whose header passes CRC-8 and announces a block size of 32768 or more', ''),
 'C16-V': ('src/component/parser.rs new md5_matches() called from stream()', 'the parser decodes every parsed frame and compares with the STREAMINFO MD5 when that is non-zero: the decoder\'s unchecked i32 arithmetic runs inside the parser', 'a stream with valid CRCs, a non-zero MD5 and large residuals (FIXED order 1, 5-bit Rice parameter 30), in a build with overflow checks', 'no C16 input had both valid CRCs and residuals beyond the width: foreign sub-workload (FIXED subframes with 5-bit Rice parameters up to 30 and remainders near 2^28 behind valid CRCs; caught by the chk pass)'),
 'C17-U': ('src/source.rs FrameBuf::fill_le_bytes', 'mono fast path above the too-long guard that clamps with min: an over-long byte fill of a 1-channel buffer is truncated and returns Ok', 'channels == 1, a byte fill, more samples than the buffer holds', ''),
 'C17-V': ('src/error.rs verify_range! (half-open arm)', '"dedupe": ..N delegates to the ..=N arm, the frame-number check is off by one', 'encode_fixed_size_frame with frame_number == 2^31 exactly', ''),
 'C18-U': ('src/component/verify.rs new extreme_sample used by Verify for Verbatim and Verbatim::new', 'only the largest-magnitude sample is range-checked, found with max_by_key(unsigned_abs), which returns the LAST maximum on a tie', 'the out-of-range +2^(bps-1) followed later by the valid -2^(bps-1), nothing larger in the block', 'the Verbatim grid drew out-of-range values at random positions of long vectors: short vectors over the exact limits of the width and their neighbours in every order'),
 'C18-V': ('src/component/parser.rs frame()', 'the per-channel cursor hoisted into the returned FnMut parser\'s state and reset only after a frame parses completely', 'the same parser object called again after Incomplete / a CRC error past the first subframe, on a LeftSide / RightSide / MidSide frame', 'every parse-back used a fresh parser object: C15 and C18 now first hand the object a prefix of the frame (and C15 a damaged copy)'),
}
M.update(json.load(open('/tmp/seed11/extra_meta.json')) if os.path.exists('/tmp/seed11/extra_meta.json') else {})
final = {}
for f in glob.glob('/tmp/seed11/intake.*.log'):
    for line in open(f):
        t = line.strip().split(' | ')
        if len(t) >= 3:
            final[t[0]] = (t[1], t[2], t[3] if len(t) > 3 else '')
kept = 0
for sid, rec in M.items():
    p, l = sid.split('-')
    src = f'/tmp/seed11/out/{p}'
    if sid not in final or 'suite=pass' not in final[sid][0] or 'demo_with=fail' not in final[sid][0] or 'demo_without=pass' not in final[sid][0]:
        print('NOT CONFIRMED', sid, final.get(sid))
        continue
    d = f'/verif/seeded/{sid}'
    os.makedirs(d, exist_ok=True)
    shutil.copy(f'{src}/{l}.patch', f'{d}/patch.diff')
    shutil.copy(f'{src}/{l}_demo.rs', f'{d}/demo.rs')
    shutil.copy(f'{src}/{l}.txt', f'{d}/description.txt')
    site, change, needs, added = rec
    fired = f'FIRED:[ {p} ]' in final[sid][1]
    meta = {'id': sid, 'property': p, 'property_title': props[p], 'round': 11, 'site': site, 'change': change, 'needs_to_manifest': needs,
            'origin': 'written by a fresh sub-agent that was given the property text, a scratch worktree of /repo and the list of sites earlier rounds had used (nothing from /verif)',
            'confirmed': {'how': 'tools/seedverify.sh <worktree> patch.diff demo.rs in a scratch worktree of /repo (HEAD 59ba97d; every patch also applies to ad8ab2b)',
                          'result': final[sid][0],
                          'repository_suite_with_change': 'cargo test --workspace --no-fail-fast --offline: 163 passed', 'demo_with_change': 'fails', 'demo_without_change': 'passes'},
            'first_confrontation': 'fired' if fired else 'silent', 'strengthening': added,
            'scratch_run_of_committed_checks': {'command': 'tools/seedintake.sh (scratch worktree of /repo HEAD + snapshot of /verif HEAD before the round-11 strengthening), ./check %s quick' % p, 'result': final[sid][1], 'signatures': final[sid][2]}}
    json.dump(meta, open(f'{d}/meta.json', 'w'), indent=1)
    kept += 1
os.makedirs('/verif/seeded/_notes_round11', exist_ok=True)
for f in glob.glob('/tmp/seed11/out/C*/notes.txt'):
    shutil.copy(f, '/verif/seeded/_notes_round11/%s.notes.txt' % f.split('/')[-2])
print(kept, 'kept of', len(M))
