#![allow(dead_code, clippy::all)]
//! fvmon: runtime monitors for flacenc-rs (properties C01..C20).
//!
//! usage: fvmon run <ID> <quick|thorough>
//!        fvmon replay <path>
//!        fvmon child <kind> ...      (internal: supervised scenarios)

mod bitmodel;
mod common;
mod enc;
mod gen;
mod mon_a;
mod mon_b;
mod mon_c;
mod mon_d;
mod mon_e;
mod mon_f;
mod digest_corpus;
mod mon_par;
mod mini;
mod supervise;
mod mon_stream;
mod poison;
mod prng;
mod refdec;
mod sched;

use common::{Ctx, Tier};
use std::time::Duration;

/// Allocation watcher. An allocation failure aborts the process and cannot be caught, so a monitor
/// process that dies of one normally yields "inconclusive" (it may be the machine). But the
/// workloads are bounded (no input above a few MiB, serialisation capped at 64 MiB, the largest
/// harness-made sink 512 MiB), so a request of 2 GiB or more that comes from INSIDE the library is
/// a defect of the library (a garbage size), whether or not the machine could serve it. Every such
/// request is noted on stderr with the first library frame of its backtrace; `./check` uses the
/// note to classify an allocation-failure crash (DESIGN 6.6).
#[cfg(not(miri))]
mod allocwatch {
    use std::alloc::{GlobalAlloc, Layout, System};
    use std::cell::Cell;
    pub const HUGE: usize = 2 << 30;
    thread_local!(static BUSY: Cell<bool> = const { Cell::new(false) });
    pub struct Watch;
    fn note(size: usize) {
        if BUSY.with(|b| b.replace(true)) {
            return;
        }
        let bt = std::backtrace::Backtrace::force_capture().to_string();
        let mut frames = bt.lines().map(str::trim).filter(|l| !l.starts_with("at ") && !l.contains("allocwatch"));
        let lib = frames.find(|l| l.contains("flacenc::")).map(|l| l.splitn(2, ": ").nth(1).unwrap_or(l).to_string());
        let by_harness_first = bt.lines().map(str::trim).filter(|l| !l.starts_with("at ") && !l.contains("allocwatch")).find(|l| l.contains("flacenc::") || l.contains("fvmon::")).map_or(false, |l| l.contains("fvmon::"));
        eprintln!(
            "HUGE-ALLOC bytes={size} requested_by={} first_library_frame={}",
            if lib.is_some() && !by_harness_first { "library" } else { "harness" },
            lib.unwrap_or_else(|| "-".into())
        );
        BUSY.with(|b| b.set(false));
    }
    unsafe impl GlobalAlloc for Watch {
        unsafe fn alloc(&self, l: Layout) -> *mut u8 {
            if l.size() >= HUGE {
                note(l.size());
            }
            System.alloc(l)
        }
        unsafe fn alloc_zeroed(&self, l: Layout) -> *mut u8 {
            if l.size() >= HUGE {
                note(l.size());
            }
            System.alloc_zeroed(l)
        }
        unsafe fn dealloc(&self, p: *mut u8, l: Layout) {
            System.dealloc(p, l)
        }
        unsafe fn realloc(&self, p: *mut u8, l: Layout, new_size: usize) -> *mut u8 {
            if new_size >= HUGE {
                note(new_size);
            }
            System.realloc(p, l, new_size)
        }
    }
}
#[cfg(not(miri))]
#[global_allocator]
static ALLOC: allocwatch::Watch = allocwatch::Watch;

fn seed_from_env() -> u64 {
    std::env::var("VERIF_SEED").ok().and_then(|s| s.trim().parse::<u64>().ok()).unwrap_or(1)
}

fn limit_memory() {
    // sanitizer runtimes reserve terabytes of address space; Miri has no setrlimit
    if cfg!(miri) || matches!(common::mode().as_str(), "asan" | "tsan" | "miri") {
        return;
    }
    // keep a runaway case from taking the machine down (alloc failure aborts => exit != 0/1)
    let gb: u64 = std::env::var("VERIF_MEM_GB").ok().and_then(|s| s.parse().ok()).unwrap_or(40);
    let lim = libc::rlimit { rlim_cur: gb << 30, rlim_max: gb << 30 };
    unsafe {
        libc::setrlimit(libc::RLIMIT_AS, &lim);
    }
}

fn run_monitor(ctx: &Ctx) -> i32 {
    match ctx.prop.as_str() {
        "C01" => mon_a::run_c01(ctx),
        "C02" => mon_b::run_c02(ctx),
        "C03" => mon_a::run_c03(ctx),
        "C04" => mon_a::run_c04(ctx),
        "C05" => mon_par::run_c05(ctx),
        "C06" => mon_par::run_c06(ctx),
        "C07" => mon_c::run_c07(ctx),
        "C08" => mon_b::run_c08(ctx),
        "C09" => mon_a::run_c09(ctx),
        "C10" => mon_c::run_c10(ctx),
        "C11" => mon_b::run_c11(ctx),
        "C12" => mon_b::run_c12(ctx),
        "C14" => mon_b::run_c14(ctx),
        "C13" => mon_a::run_c13(ctx),
        "C15" => mon_a::run_c15(ctx),
        "C16" => mon_d::run_c16(ctx),
        "C17" => mon_e::run_c17(ctx),
        "C18" => mon_e::run_c18(ctx),
        "C19" => mon_c::run_c19(ctx),
        "C20" => mon_f::run_c20(ctx),
        other => {
            eprintln!("unknown property {other}");
            64
        }
    }
}

fn main() {
    let args: Vec<String> = std::env::args().collect();
    limit_memory();
    common::install_panic_hook();
    common::mark_harness_thread();
    let code = match args.get(1).map(String::as_str) {
        Some("run") => {
            let prop = args.get(2).expect("property id");
            let tier = match args.get(3).map(String::as_str) {
                Some("thorough") => Tier::Thorough,
                _ => Tier::Quick,
            };
            let budget = Duration::from_secs(
                std::env::var("VERIF_BUDGET_S").ok().and_then(|s| s.parse().ok()).unwrap_or(tier.pick(1500, 7200)),
            );
            let ctx = Ctx::new(prop, tier, seed_from_env(), budget);
            common::start_hang_watchdog(&ctx);
            run_monitor(&ctx)
        }
        Some("child") => mon_par::child_main(&args[2..]),
        Some("mini") => mini::main(&args[2..]),
        Some("dump-streams") => {
            // seed corpus for the fuzzer: small emitted streams
            let dir = args.get(2).expect("dir");
            let seed: u64 = args.get(3).and_then(|s| s.parse().ok()).unwrap_or(1);
            let n: usize = args.get(4).and_then(|s| s.parse().ok()).unwrap_or(40);
            std::fs::create_dir_all(dir).ok();
            for (i, b) in mon_d::base_streams(seed, n).iter().enumerate() {
                std::fs::write(format!("{dir}/seed-{seed}-{i}.flac"), &b.bytes).ok();
            }
            0
        }
        Some("parse-file") => {
            // classify a fuzzer artifact with the release parser
            let data = std::fs::read(args.get(2).expect("path")).expect("read");
            match mon_d::parse_and_classify(&data, &[]) {
                mon_d::Parsed::Panic(site, msg) => {
                    println!("PARSE-PANIC {site} :: {msg}");
                    1
                }
                other => {
                    println!("PARSE-OK {}", match other { mon_d::Parsed::Err => "rejected", _ => "accepted" });
                    0
                }
            }
        }
        Some("replay") => {
            let path = args.get(2).expect("replay path");
            let text = std::fs::read_to_string(path).expect("read replay file");
            let v: serde_json::Value = serde_json::from_str(&text).expect("parse replay file");
            let prop = v["property"].as_str().unwrap_or("?").to_string();
            let tier = if v["tier"].as_str() == Some("thorough") { Tier::Thorough } else { Tier::Quick };
            let seed = v["seed"].as_u64().unwrap_or(1);
            let mut ctx = Ctx::new(&prop, tier, seed, Duration::from_secs(3600));
            let sub = v["case"]["sub"].as_str().map(str::to_string);
            let idx = v["case"]["index"].as_u64();
            println!("replaying {} sig={} detail={}", prop, v["sig"], v["detail"]);
            match (sub, idx) {
                (Some(s), Some(i)) => {
                    ctx.only = Some((s, i));
                    ctx.threads = 1;
                    common::start_hang_watchdog(&ctx);
                    run_monitor(&ctx)
                }
                _ => {
                    println!("this finding is not tied to a single generated case; re-running the whole check at the recorded seed");
                    run_monitor(&ctx)
                }
            }
        }
        _ => {
            eprintln!("usage: fvmon run <ID> <quick|thorough> | fvmon replay <path>");
            64
        }
    };
    std::process::exit(code);
}
