#!/bin/bash
# tools/runall.sh <tier> [ids...] : run checks sequentially, print one summary line each
tier=${1:-quick}; shift
ids=${@:-C01 C02 C03 C04 C05 C06 C07 C08 C09 C10 C11 C12 C13 C14 C15 C16 C17 C18 C19 C20}
cd /verif
for id in $ids; do
  s=$(date +%s.%N)
  ./check $id $tier > /tmp/runall.$id.log 2>&1; rc=$?
  e=$(date +%s.%N)
  printf "%s rc=%d %.1fs %s\n" $id $rc $(echo "$e - $s" | bc) "$(grep -cE '^VIOLATION' /tmp/runall.$id.log) violations, $(grep -cE '^KNOWN-FINDING' /tmp/runall.$id.log) known, $(grep -cE '^INCONCLUSIVE' /tmp/runall.$id.log) inconclusive; $(grep -E '^\[C' /tmp/runall.$id.log | head -1)"
done
