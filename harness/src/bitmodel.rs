//! Bit-string model and user-defined sinks.

use flacenc::bitsink::{BitSink, Bits};
use std::fmt;

/// Packed MSB-first bit string: the ideal model of a sink.
#[derive(Clone, Debug, Default, PartialEq, Eq)]
pub struct BitVec {
    pub bytes: Vec<u8>,
    pub len: usize,
}

impl BitVec {
    pub fn new() -> Self {
        Self::default()
    }
    pub fn push(&mut self, bit: bool) {
        if self.len & 7 == 0 {
            self.bytes.push(0);
        }
        if bit {
            let l = self.bytes.len();
            self.bytes[l - 1] |= 0x80 >> (self.len & 7);
        }
        self.len += 1;
    }
    /// Appends the `n` least significant bits of `v`, most significant of those first.
    pub fn push_lsbs(&mut self, v: u64, n: usize) {
        debug_assert!(n <= 64);
        let mut left = n;
        while left > 0 {
            if self.len & 7 == 0 {
                self.bytes.push(0);
            }
            let room = 8 - (self.len & 7);
            let take = room.min(left);
            let chunk = ((v >> (left - take)) & ((1u64 << take) - 1)) as u8;
            let l = self.bytes.len();
            self.bytes[l - 1] |= chunk << (room - take);
            self.len += take;
            left -= take;
        }
    }
    pub fn push_zeros(&mut self, n: usize) {
        let new_len = self.len + n;
        self.bytes.resize((new_len + 7) / 8, 0);
        self.len = new_len;
    }
    pub fn get(&self, i: usize) -> bool {
        (self.bytes[i >> 3] >> (7 - (i & 7))) & 1 == 1
    }
    pub fn align(&mut self) -> usize {
        let pad = (8 - (self.len & 7)) & 7;
        self.push_zeros(pad);
        pad
    }
    /// True if self is a prefix of other.
    pub fn is_prefix_of(&self, other: &BitVec) -> bool {
        if self.len > other.len {
            return false;
        }
        let full = self.len >> 3;
        if self.bytes[..full] != other.bytes[..full] {
            return false;
        }
        let rem = self.len & 7;
        if rem == 0 {
            return true;
        }
        let mask = 0xFFu8 << (8 - rem);
        (self.bytes[full] & mask) == (other.bytes[full] & mask)
    }
    pub fn from_bytes(b: &[u8]) -> Self {
        Self {
            bytes: b.to_vec(),
            len: b.len() * 8,
        }
    }
}

fn width_of<T>() -> usize {
    std::mem::size_of::<T>() * 8
}

#[derive(Debug, Clone, PartialEq, Eq)]
pub struct SinkFault(pub usize);
impl fmt::Display for SinkFault {
    fn fmt(&self, f: &mut fmt::Formatter<'_>) -> fmt::Result {
        write!(f, "injected sink fault at operation {}", self.0)
    }
}
impl std::error::Error for SinkFault {}

/// A user-defined sink implementing ONLY the four required methods (so the trait's default
/// `write_bytes_aligned` / `write_twoc` / `write_zeros` are exercised). Optionally fails at its
/// k-th operation.
#[derive(Clone, Debug, Default)]
pub struct UserSink {
    pub bits: BitVec,
    pub ops: usize,
    pub fail_at: Option<usize>,
    pub failed: bool,
    /// operations attempted after a failure was returned (a correct caller stops)
    pub ops_after_failure: usize,
}

impl UserSink {
    pub fn new() -> Self {
        Self::default()
    }
    pub fn failing_at(k: usize) -> Self {
        Self {
            fail_at: Some(k),
            ..Self::default()
        }
    }
    fn op(&mut self) -> Result<(), SinkFault> {
        if self.failed {
            self.ops_after_failure += 1;
        }
        let k = self.ops;
        self.ops += 1;
        if self.fail_at == Some(k) {
            self.failed = true;
            return Err(SinkFault(k));
        }
        Ok(())
    }
}

impl BitSink for UserSink {
    type Error = SinkFault;
    fn align_to_byte(&mut self) -> Result<usize, Self::Error> {
        self.op()?;
        Ok(self.bits.align())
    }
    fn write_lsbs<T: Bits>(&mut self, val: T, n: usize) -> Result<(), Self::Error> {
        self.op()?;
        let v: u64 = val.into();
        self.bits.push_lsbs(v, n);
        Ok(())
    }
    fn write_msbs<T: Bits>(&mut self, val: T, n: usize) -> Result<(), Self::Error> {
        self.op()?;
        let v: u64 = val.into();
        let w = width_of::<T>();
        if n > 0 {
            self.bits.push_lsbs(v >> (w - n), n);
        }
        Ok(())
    }
    fn write<T: Bits>(&mut self, val: T) -> Result<(), Self::Error> {
        self.op()?;
        let v: u64 = val.into();
        self.bits.push_lsbs(v, width_of::<T>());
        Ok(())
    }
}

/// A sink that only counts bits (for components too large to materialise).
#[derive(Clone, Debug, Default)]
pub struct CountSink {
    pub len: u64,
    pub ones: u64,
}

#[derive(Debug)]
pub struct Never;
impl fmt::Display for Never {
    fn fmt(&self, f: &mut fmt::Formatter<'_>) -> fmt::Result {
        write!(f, "never")
    }
}
impl std::error::Error for Never {}

impl BitSink for CountSink {
    type Error = Never;
    fn align_to_byte(&mut self) -> Result<usize, Self::Error> {
        let pad = ((8 - (self.len & 7)) & 7) as usize;
        self.len += pad as u64;
        Ok(pad)
    }
    fn write_lsbs<T: Bits>(&mut self, val: T, n: usize) -> Result<(), Self::Error> {
        let v: u64 = val.into();
        let m = if n >= 64 { v } else { v & ((1u64 << n) - 1) };
        self.ones += u64::from(m.count_ones());
        self.len += n as u64;
        Ok(())
    }
    fn write_msbs<T: Bits>(&mut self, val: T, n: usize) -> Result<(), Self::Error> {
        let v: u64 = val.into();
        let w = width_of::<T>();
        if n > 0 {
            self.ones += u64::from((v >> (w - n)).count_ones());
        }
        self.len += n as u64;
        Ok(())
    }
    fn write<T: Bits>(&mut self, val: T) -> Result<(), Self::Error> {
        let v: u64 = val.into();
        self.ones += u64::from(v.count_ones());
        self.len += width_of::<T>() as u64;
        Ok(())
    }
    fn write_zeros(&mut self, n: usize) -> Result<(), Self::Error> {
        self.len += n as u64;
        Ok(())
    }
}

/// The same recording / failing sink with a ZERO-SIZED error type (a unit struct, like
/// `std::fmt::Error`): the position of the failure is kept in the sink, not in the error.
#[derive(Debug, Clone, Copy, PartialEq, Eq)]
pub struct UnitFault;
impl fmt::Display for UnitFault {
    fn fmt(&self, f: &mut fmt::Formatter<'_>) -> fmt::Result {
        write!(f, "injected sink fault (unit error)")
    }
}
impl std::error::Error for UnitFault {}

#[derive(Clone, Debug, Default)]
pub struct UnitErrSink(pub UserSink);

impl BitSink for UnitErrSink {
    type Error = UnitFault;
    fn align_to_byte(&mut self) -> Result<usize, Self::Error> {
        self.0.align_to_byte().map_err(|_| UnitFault)
    }
    fn write_lsbs<T: Bits>(&mut self, val: T, n: usize) -> Result<(), Self::Error> {
        self.0.write_lsbs(val, n).map_err(|_| UnitFault)
    }
    fn write_msbs<T: Bits>(&mut self, val: T, n: usize) -> Result<(), Self::Error> {
        self.0.write_msbs(val, n).map_err(|_| UnitFault)
    }
    fn write<T: Bits>(&mut self, val: T) -> Result<(), Self::Error> {
        self.0.write(val).map_err(|_| UnitFault)
    }
}
