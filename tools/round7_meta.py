#!/usr/bin/env python3
# builds /verif/seeded/<id>/ for the round-7 seeds from /tmp/seed7/out/<P>/{M,N}.patch etc.
import json, os, shutil, sys, glob
props = {json.loads(l)['id']: json.loads(l)['title'] for l in open('/verif/properties.jsonl')}
M = {
 'C01-M': ('src/component/datatype.rs BlockSizeSpec::from_size', 'literal family tables replaced by arithmetic guards; the 576 family loses its n <= 3 bound, so 9216 and 18432 get code 0110/0111 without the trailing size bytes (same slip as C02-C, written independently for C01)', 'a frame of exactly 9216 or 18432 samples (block size or final block)', 'silent', 'C01 had no frame of those lengths: sizeclass sub-workload (frames on / next to every block-size code class) added to the common stream workload'),
 'C01-N': ('src/bitsink.rs MemSink<u64>::write_bytes_aligned', 'bulk path appends whole 8-byte groups as words after align_to_byte(), which is only right on a 64-bit boundary', 'a Stream (or several frames) serialised into the public MemSink<u64>: every stream, since the MD5 starts at byte 26', 'silent', 'C01 only emitted through ByteSink: every C01 stream is now also emitted through MemSink<u64> and, if the bytes differ, decoded independently'),
 'C02-M': ('src/component/bitrepr.rs encode_to_utf8like', 'table-driven rewrite whose two-byte limit reads 0xFFF instead of 0x7FF: frame numbers 2048..4095 get a 2-byte code with an invalid head byte (count_bits stays consistent)', 'a stream of more than 2048 frames, or a header with a number in 2048..=4095', 'fired', ''),
 'C02-N': ('src/component/datatype.rs Stream::add_metadata_block', 'flag handling tidied with first_mut() instead of last_mut(): from the third added block on a middle block keeps the last-block flag', 'three or more add_metadata_block calls on one stream', 'silent', 'C02 never added metadata blocks (C15 had up to 3, C08 counted bits only): metadata chain sub-workload (0..=6 blocks, flags, order, types, lengths, audio offset)'),
 'C03-M': ('src/arrayutils.rs i32s_to_le_bytes', 'per-width chunked rewrite; the 1-byte tail loop reads from ints[groups..] instead of ints[groups*4..]', '<= 8-bit input, multi-thread, integer delivery, a block whose value count is not a multiple of 4', 'fired', ''),
 'C03-N': ('src/source.rs Context::fill_le_bytes + src/par.rs ParContext::fill_le_bytes', 'padded byte containers accepted (16-bit samples in 4-byte words); the count divides by self.bytes_per_sample instead of the container width', 'a byte source whose container is wider than the sample width, no length hint, single-thread', 'silent', 'such sources are refused on the unchanged tree and were only in C17: C03 padded sub-workload (if a stream is emitted, it is judged)'),
 'C04-M': ('src/source.rs FrameBuf::with_size', 'lower bound relaxed to 1: the only lower-bound check of the block-size argument', 'encode_with_fixed_block_size with a block size of 1..=15: Ok(stream) with min = max < 16', 'silent', 'C04 stayed inside the block-size domain: outside sub-workload (arguments outside 32..=32767; refused = fine, emitted = judged)'),
 'C05-N': ('src/coding.rs try_stereo_coding + thread-local LAST_STEREO_MODE', 'on exact cost ties the stereo mode of the previous frame encoded ON THIS THREAD is kept', 'a frame whose modes tie exactly (left == right) after a frame where another mode won, on a thread with a different history', 'fired', ''),
 'C06-M': ('src/par.rs ParContext::request_stop', 'stop sentinel sent only when bytebuf is non-empty', 'a read error at block index 0, or an empty source ending with a bare Ok(0): finalize() blocks forever', 'fired', ''),
 'C06-N': ('src/par.rs determine_worker_count', 'refactor that queries the OS only when needed loses .filter(|n| n > 0): FLACENC_WORKERS=0 gives zero workers and the feeder blocks forever (ported to HEAD after fix 1fea44b)', 'workers = None and FLACENC_WORKERS=0', 'silent', 'the override was only driven by C05: C06 env sub-workload (0-2 faults, 17 override strings)'),
 'C07-M': ('src/component/datatype.rs BlockSizeSpec::from_size', 'same arithmetic-guard slip as C01-M (written independently)', 'config.block_size 9216 or 18432 (both verify) and an input of at least one full block', 'silent', 'C07 probes never filled a large block: block-size tweaks on the code classes + a full-block probe'),
 'C07-N': ('src/lpc.rs symmetric_levinson_recursion', 'the never-looping loop with the denom.is_zero() skip flattened away: a reflection coefficient of exactly +-1 gives NaN and the assertion fires', 'Rectangle or Tukey{0} window and an exactly singular block (alternating +-A, DC with use_constant = false)', 'fired', ''),
 'C08-M': ('src/component/bitrepr.rs Verbatim::write', '8-bit fast path through write_bytes_aligned, which pads to a byte boundary first', '8-bit verbatim subframe starting mid-byte with a later subframe, >= 3 channels, non-precomputed frame', 'fired', ''),
 'C08-N': ('src/component/datatype.rs SampleRateSpec::count_extra_bits', 'match on tag() forgets 0b1110 (tens of Hz, 16 extra bits)', 'a sample rate in the tens-of-Hz class (37800, 18900, 95990)', 'fired', ''),
 'C09-M': ('src/coding.rs estimated_qlpc / encode_subframe', 'LPC candidate rejected early on a size that omits the warm-up samples; the finished candidate is no longer re-counted', 'nearly incompressible, slightly coloured noise in a narrow amplitude band (true size in [verbatim, verbatim + bps*order))', 'fired', ''),
 'C09-N': ('src/coding.rs try_stereo_coding', 'mode looked up by an index taken after disabled modes were filtered out', 'a disabled stereo mode before the winning one and loud anti-phase content', 'fired', ''),
 'C10-M': ('src/rice.rs PrcParameterFinder (thread-local)', 'max_p becomes a property of the lazily created per-thread finder: later calls keep the first max_parameter', 'two single-thread encodes on one thread with different prc.max_parameter', 'fired', ''),
 'C10-N': ('src/source.rs FrameBuf::resize + new_stereo_buffer', 'shrinking resize keeps the backing vector: channels() and strides derive from the old length; the thread-local M/S scratch then reports garbage channel counts', 'a stereo single-thread encode with block B1, then one with B2 <= 2/3 B1 on the same thread (panic or an absurd allocation)', 'silent', 'first run inconclusive: the monitor process died of an allocation failure (18 GB requested in FrameBuf::resize). Allocation watcher added: a failed request of >= 2 GiB made inside the library on a bounded input is a violation'),
 'C11-M': ('src/bitsink.rs MemSink<u8>::write_msbs', 'single 64-bit word rewrite: for (len % 8) + n >= 65 the low bits are shifted out and .take(9) of 8 bytes leaves the storage one byte short', 'a 58..64-bit field written while the cursor is not byte aligned', 'fired', ''),
 'C11-N': ('src/bitsink.rs MemSink<u64>::write_lsbs', 'n == 0 early return removed, wrapping_shl by the full width is a shift by 0: the value is ORed into the unwritten tail', 'write_lsbs(val, 0) with non-zero top bits, cursor not on a 64-bit boundary', 'fired', ''),
 'C12-M': ('src/component/bitrepr.rs Stream::write', 'metadata chain written with fold(Ok(()), |_, b| b.write(dest)): only the last result survives', 'a stream with an added metadata block and a sink failure inside a non-last block', 'fired', ''),
 'C12-N': ('src/component/bitrepr.rs Verbatim::write (WordPacker)', 'tail bits flushed in Drop, where the result is discarded', 'Verbatim/SubFrame written directly to a failing sink, n*bps not a multiple of 64', 'fired', ''),
 'C13-M': ('src/rice.rs PrcParameterFinder (guard field)', 'lane mask for max_p cached in the thread-local finder and never refreshed', 'one thread searching under two different prc.max_parameter values', 'fired', ''),
 'C13-N': ('src/rice.rs PrcParameterFinder::find', 'folded errors clamped to 2^24-1 before the cost tables are built', '24-bit input with a residual |r| >= 2^23 in a subframe that still beats verbatim (one full-scale click)', 'fired', ''),
 'C14-M': ('src/source.rs Context::new / fill_le_bytes', 'sample count through a precomputed block align channels*bits/8', 'a width that is not a multiple of 8 (12, 20 bit), byte delivery, single-thread', 'fired', ''),
 'C14-N': ('src/source.rs Context::md5_digest', 'memoised digest reset only by fill_interleaved', 'bytes, md5_digest(), more bytes, md5_digest() on one Context', 'fired', ''),
 'C15-M': ('src/component/parser.rs unary_code', 'word-at-a-time scan that applies the initial bit offset to every later window', 'a Rice quotient of 57 or more starting at a non-zero bit offset', 'fired', ''),
 'C15-N': ('src/component/datatype.rs StreamInfo::set_block_sizes', 'the setter rejects min_block_size < 16; parser::stream_info builds through the setter', 'a stream assembled with add_frame holding a block of 1..=15 samples', 'silent', 'the frame-wise streams of the harness restored (B, B) like the encoder does: assembled sub-workload (add_frame only)'),
 'C16-M': ('src/component/parser.rs unary_code', 'byte-wise zero scan indexes past the end of the input', 'input ending inside an all-zero unary run (zero-filled or cut-short file)', 'fired', 'the first scratch run ended with a build error (exit 3) because the runner had copied a half-edited harness; the committed checks fire'),
 'C16-N': ('src/component/parser.rs residual', 'coded_len = block_size - warmup_length computed before the order-vs-block-size check', 'a last frame of 1..3 samples whose subframe header is altered to a predictor order above the block size (overflow checks on)', 'fired', ''),
 'C17-M': ('src/coding.rs encode_with_fixed_block_size (single-thread)', 'fast path for len_hint == Some(0) returns a header-only stream before FrameBuf::with_size, the only lower-bound check of the block size', 'multithread = false, an empty source with a length hint, block size 0..=31', 'silent', 'the invalid-argument grid always used a 700-sample source: StreamEncShort specs (empty / 1 / 5 samples, with and without hint)'),
 'C17-N': ('src/source.rs Context::fill_le_bytes', 'bytes.len() % bytes_per_sample evaluated before the width guard: remainder by zero for bytes_per_sample = 0 (ported to HEAD after fix a1b1bbd)', 'a direct Context::fill_le_bytes(.., 0)', 'fired', ''),
 'C18-M': ('src/component/bitrepr.rs utf8like_bytesize', 'match on value ranges following the 1-6 byte UTF-8 table: the 7-byte class counts as 6', 'a variable-blocking header with a start sample >= 2^31', 'fired', ''),
 'C18-N': ('src/component/datatype.rs QuantizedParameters::new', 'order pre-check removed as a duplicate; from_parts copies coefs[0..order] into 32 lanes before verify()', 'order >= 33 with coefs.len() == order', 'fired', ''),
 'C19-M': ('src/config.rs Fixed::max_order', 'deserialize_with helper saturates at 4', 'a document (or round trip) with max_order above 4', 'fired', ''),
 'C19-N': ('src/config.rs SubFrameCoding (remote Deserialize wrapper)', 'the section of a disabled predictor is reset to its default on parse', 'use_fixed / use_lpc false with a non-default section', 'fired', ''),
 'C20-M': ('src/source.rs Context::fill_interleaved', 'guard len() < channels instead of is_empty(): a read holding less than one inter-channel sample is not hashed (ported to HEAD after fix a1b1bbd)', 'a MemSource whose sample count is not a multiple of the channel count, single-thread vs multi-thread', 'silent', 'the digest corpus only used whole inter-channel samples: cases with the library MemSource over a vector with a stray value added'),
 'C20-N': ('src/par.rs ParContext::enqueue_buffer', 'try_send + inline hashing when the 16-slot queue is full (C03-A family, written independently)', 'hashing thread >= 16 blocks behind the feeder', 'fired', ''),
}
OBSOLETE = {
 'C04-N': ('src/coding.rs + src/par.rs encode_with_fixed_block_size', "the 'no frame' test keyed on the hinted total_samples", 'a source whose len_hint() is Some(0) while it delivers data', 'silent', 'obsolete after fix 292c93b (STREAMINFO total = samples consumed; the hint is no longer read): the patch no longer applies and its condition became equivalent to frame_count() == 0'),
 'C05-M': ('src/par.rs encode_with_fixed_block_size', 'the length hint is used for total_samples only when consistent with the frame count (multi-thread only)', 'a hint that disagrees with the delivery (partially read MemSource)', 'silent', 'obsolete after fix 292c93b (neither path reads the hint any more)'),
}
final = {}
for f in glob.glob('/tmp/seed7/out/C*/*.final'):
    t = open(f).read().strip().split(' | ')
    final[t[0]] = (t[1], t[2] if len(t) > 2 else '')
def emit(sid, rec, base):
    p, l = sid.split('-')
    src = f'/tmp/seed7/out/{p}'
    d = f'{base}/{sid}'
    os.makedirs(d, exist_ok=True)
    shutil.copy(f'{src}/{l}.patch', f'{d}/patch.diff')
    shutil.copy(f'{src}/{l}_demo.rs', f'{d}/demo.rs')
    for extra in (f'{l}_demo.sh', f'{l}.orig.patch'):
        if os.path.exists(f'{src}/{extra}'):
            shutil.copy(f'{src}/{extra}', f'{d}/' + ('demo.sh' if extra.endswith('.sh') else 'patch.as-written.diff'))
    site, change, needs, first, added = rec
    meta = {'id': sid, 'property': p, 'property_title': props[p], 'round': 7, 'site': site, 'change': change, 'needs_to_manifest': needs,
            'origin': 'written by a fresh sub-agent that was given the property text, a scratch worktree of /repo and the list of sites earlier rounds had used (nothing from /verif)',
            'confirmed': {'how': 'tools/seedverify.sh <worktree> patch.diff demo.rs in a scratch worktree of /repo (HEAD at the time; ported patches re-confirmed at the current HEAD)',
                          'repository_suite_with_change': 'cargo test --workspace --no-fail-fast --offline: 163 passed', 'demo_with_change': 'fails', 'demo_without_change': 'passes', 'note': ''},
            'first_confrontation': first, 'strengthening': added,
            'scratch_run_of_committed_checks': {'command': 'tools/seedrun.sh (scratch worktree of /repo HEAD + snapshot of /verif HEAD), ./check %s quick' % p, 'result': final.get(sid, ('', ''))[0], 'signatures': final.get(sid, ('', ''))[1]}}
    json.dump(meta, open(f'{d}/meta.json', 'w'), indent=1)
for sid, rec in M.items():
    emit(sid, rec, '/verif/seeded')
for sid, rec in OBSOLETE.items():
    emit(sid, rec, '/verif/seeded/_obsolete')
print(len(M), 'kept', len(OBSOLETE), 'obsolete')
