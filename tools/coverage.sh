#!/bin/bash
# tools/coverage.sh [tier] [ids...]
# What do the monitors actually reach?  Builds the harness (and /repo's current tree) with
# -Cinstrument-coverage on the nightly toolchain, runs the rel monitor of every property (no
# sanitizer passes), merges the profiles (children included: %p-%m) and prints, for every source
# file of the repository, line coverage and the line ranges that NO monitor executed.
# Not a check: it decides nothing. It is the tool used to find workload gaps ("a property says
# nothing about paths the workload never drives") - see DESIGN.md 6.5.
# Output: target/cov/report.txt (summary), target/cov/uncovered.txt (per-file unreached lines).
set -u
ROOT=${VERIF_ROOT:-/verif}
cd "$ROOT" || exit 3
tier=${1:-quick}; shift
ids=${@:-C01 C02 C03 C04 C05 C06 C07 C08 C09 C10 C11 C12 C13 C14 C15 C16 C17 C18 C19}
T=$ROOT/target/cov
BIN=$(dirname "$(rustc +nightly --print target-libdir)")/bin
export CARGO_NET_OFFLINE=true
mkdir -p "$T/prof"; rm -f "$T"/prof/*.profraw
( cd harness && LLVM_PROFILE_FILE="$T/prof/build-%p-%m.profraw" RUSTFLAGS="--cfg flacenc_verif -Cinstrument-coverage" cargo +nightly build --offline --release --target-dir "$T" ) > "$T/build.log" 2>&1 || { echo "coverage build failed, see $T/build.log"; exit 3; }
EXE=$T/release/fvmon
# the monitors write evidence/ and read known_findings.txt relative to VERIF_ROOT: give them a scratch
# root, so that the committed evidence is never overwritten by this tool
R=$T/root; mkdir -p "$R/evidence" "$R/target/san"; cp "$ROOT/known_findings.txt" "$R/"
for id in $ids; do
  LLVM_PROFILE_FILE="$T/prof/$id-%p-%m.profraw" VERIF_ROOT=$R "$EXE" run "$id" "$tier" > "$T/run.$id.log" 2>&1
  echo "$id rc=$? $(grep -E '^\[C' "$T/run.$id.log" | head -1)"
done
"$BIN/llvm-profdata" merge -sparse "$T"/prof/*.profraw -o "$T/all.profdata" || exit 3
"$BIN/llvm-cov" report "$EXE" -instr-profile="$T/all.profdata" --ignore-filename-regex='(\.cargo|rustc|harness/src|/rustlib/)' > "$T/report.txt" 2>/dev/null
"$BIN/llvm-cov" export "$EXE" -instr-profile="$T/all.profdata" -format=lcov --ignore-filename-regex='(\.cargo|rustc|harness/src|/rustlib/)' > "$T/all.lcov" 2>/dev/null
python3 - "$T/all.lcov" > "$T/uncovered.txt" <<'PY'
import sys
cur=None; un={}
for l in open(sys.argv[1]):
    l=l.strip()
    if l.startswith('SF:'): cur=l[3:]; un[cur]=[]
    elif l.startswith('DA:'):
        n,c=l[3:].split(',')[:2]
        if int(c)==0: un[cur].append(int(n))
for f,ls in sorted(un.items()):
    if not ls: continue
    rs=[]; s=p=ls[0]
    for n in ls[1:]:
        if n==p+1: p=n; continue
        rs.append((s,p)); s=p=n
    rs.append((s,p))
    print(f"{f}: {len(ls)} lines unreached: "+" ".join(f"{a}-{b}" if a!=b else str(a) for a,b in rs))
PY
cat "$T/report.txt"
