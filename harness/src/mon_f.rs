//! C20: emitted bytes do not depend on optional cargo features.

use crate::common::{finish, Ctx, Finish, Outcome};
use crate::digest_corpus;
use crate::prng;
use serde_json::json;
use std::process::Command;

/// The feature sets of the project's own CI matrix: each has its own cached target directory.
const CI_VARIANTS: [(&str, &str); 4] = [
    ("none", ""),
    ("default", "f_default"),
    ("decode", "f_default,f_decode"),
    ("exp", "f_default,f_decode,f_experimental"),
];
/// Every optional feature the property names, one at a time (quick tier, own target directories).
const SINGLE_VARIANTS: [(&str, &str); 5] = [
    ("only-log", "f_log"),
    ("only-par", "f_par"),
    ("only-serde", "f_serde"),
    ("only-decode", "f_decode"),
    ("only-experimental", "f_experimental"),
];
const ATOMS: [(&str, &str); 5] = [("log", "f_log"), ("par", "f_par"), ("serde", "f_serde"), ("decode", "f_decode"), ("experimental", "f_experimental")];

fn build(target: &str, name: &str, features: &str) -> Result<String, String> {
    let root = crate::common::verif_dir();
    let target = format!("{root}/target/{target}");
    let mut cmd = Command::new("cargo");
    cmd.current_dir(format!("{root}/harness-digest"))
        .env("CARGO_NET_OFFLINE", "true")
        .env("RUSTFLAGS", "--cfg flacenc_verif")
        .args(["build", "--offline", "--release", "--no-default-features", "--target-dir", &target]);
    if !features.is_empty() {
        cmd.args(["--features", features]);
    }
    let out = cmd.output().map_err(|e| format!("cannot run cargo: {e}"))?;
    if !out.status.success() {
        return Err(format!("build of variant {name} failed: {}", String::from_utf8_lossy(&out.stderr).lines().filter(|l| l.starts_with("error")).take(5).collect::<Vec<_>>().join(" | ")));
    }
    Ok(format!("{target}/release/fvdigest"))
}

/// All 32 subsets of the five optional features, minus the ones the quick tier already builds.
/// They are built in four lanes; a lane re-uses one target directory (dependencies stay cached,
/// only flacenc and the digest binary are rebuilt per set) and copies each binary aside.
fn build_subsets() -> Vec<(String, Result<String, String>)> {
    let root = crate::common::verif_dir();
    let bins = format!("{root}/target/feat-bins");
    let _ = std::fs::create_dir_all(&bins);
    let mut sets: Vec<(String, String)> = vec![];
    for mask in 0u32..32 {
        let names: Vec<&str> = ATOMS.iter().enumerate().filter(|(i, _)| mask >> i & 1 == 1).map(|(_, a)| a.0).collect();
        let feats: Vec<&str> = ATOMS.iter().enumerate().filter(|(i, _)| mask >> i & 1 == 1).map(|(_, a)| a.1).collect();
        // already covered by the quick sets: {}, singletons, log+par+serde (+decode (+experimental))
        if mask.count_ones() <= 1 || mask == 0b00111 || mask == 0b01111 || mask == 0b11111 {
            continue;
        }
        sets.push((format!("set-{}", names.join("+")), feats.join(",")));
    }
    let lanes = 4usize;
    let results: Vec<Vec<(String, Result<String, String>)>> = std::thread::scope(|s| {
        let hs: Vec<_> = (0..lanes)
            .map(|lane| {
                let mine: Vec<(String, String)> = sets.iter().skip(lane).step_by(lanes).cloned().collect();
                let bins = bins.clone();
                s.spawn(move || {
                    mine.into_iter()
                        .map(|(name, feats)| {
                            let r = build(&format!("feat-lane{lane}"), &name, &feats).and_then(|bin| {
                                let dst = format!("{bins}/fvdigest-{name}");
                                std::fs::copy(&bin, &dst).map(|_| dst).map_err(|e| format!("cannot copy the binary of {name}: {e}"))
                            });
                            (name, r)
                        })
                        .collect::<Vec<_>>()
                })
            })
            .collect();
        hs.into_iter().map(|h| h.join().unwrap_or_default()).collect()
    });
    results.into_iter().flatten().collect()
}

pub fn run_c20(ctx: &Ctx) -> i32 {
    let mut out = Outcome::default();
    let n = ctx.tier.pick(300u64, 3000u64);
    // build the CI variants and the single-feature variants in parallel (cached target directories)
    let fixed: Vec<(&str, &str)> = CI_VARIANTS.iter().chain(SINGLE_VARIANTS.iter()).cloned().collect();
    let mut built: Vec<(String, Result<String, String>, bool)> = std::thread::scope(|s| {
        let hs: Vec<_> = fixed.iter().map(|(name, f)| s.spawn(move || build(&format!("feat-{name}"), name, f))).collect();
        hs.into_iter().zip(fixed.iter()).enumerate().map(|(i, (h, (name, _)))| (name.to_string(), h.join().unwrap_or(Err("build thread died".into())), i < CI_VARIANTS.len())).collect()
    });
    if ctx.tier.pick(false, true) {
        for (name, r) in build_subsets() {
            built.push((name, r, false));
        }
    }
    let mut not_buildable: Vec<String> = vec![];
    let mut listings: Vec<(String, Vec<String>, String)> = vec![];
    for (name, b, ci) in built {
        let name = &name;
        match b {
            Ok(bin) => {
                let o = Command::new(&bin).args([ctx.seed.to_string(), n.to_string()]).output();
                match o {
                    Ok(o) if o.status.success() => {
                        let text = String::from_utf8_lossy(&o.stdout).to_string();
                        let mut lines: Vec<String> = text.lines().map(str::to_string).collect();
                        let feats = if !lines.is_empty() && lines[0].starts_with('#') { lines.remove(0) } else { String::new() };
                        listings.push((name.to_string(), lines, feats));
                    }
                    Ok(o) => out.violation(format!("C20|variant-crashed|{name}"), format!("fvdigest({name}) exited with {:?}: {}", o.status, String::from_utf8_lossy(&o.stderr).lines().last().unwrap_or("")), json!({"variant": name})),
                    Err(e) => out.inconclusive.push(format!("cannot run fvdigest({name}): {e}")),
                }
            }
            // the project's own CI sets must build; any other subset that does not compile is not a
            // "buildable feature set" (the property quantifies over those): noted, not judged
            Err(e) if ci => out.inconclusive.push(e),
            Err(e) => not_buildable.push(e),
        }
    }
    // own computation (harness build = default + decode, hooks on)
    let own: Vec<String> = (0..n).map(|i| digest_corpus::digest_line(ctx.seed, i)).collect();
    listings.push(("harness(default+decode)".into(), own, format!("# features: {}", flacenc::constant::build_info::FEATURES)));
    if listings.len() >= 2 {
        let (ref_name, reference, _) = listings[0].clone();
        for (i, line) in reference.iter().enumerate() {
            out.evaluations += 1;
            if !line.contains("bytes ") {
                out.violation("C20|corpus-case-failed", format!("variant {ref_name}: {line}"), json!({"index": i}));
                continue;
            }
            if line.contains(" len 0 ") {
                out.count("empty_inputs");
            } else {
                out.distinct.insert(prng::hash_str(line));
            }
            for (name, l, _) in listings.iter().skip(1) {
                let result = |s: &str| s.rsplit(" => ").next().unwrap_or("").to_string();
                match l.get(i) {
                    Some(x) if result(x) == result(line) => {}
                    other => out.violation(
                        format!("C20|bytes-depend-on-features|{ref_name}-vs-{}", name.split('(').next().unwrap_or(name)),
                        format!("case {i}: [{ref_name}] {line}  !=  [{name}] {}", other.cloned().unwrap_or_else(|| "<missing>".into())),
                        json!({"monitor": "C20", "sub": "corpus", "index": i, "seed": ctx.seed, "tier": ctx.tier.name(), "case": line}),
                    ),
                }
            }
        }
        for l in reference.iter().take(3) {
            out.sample(json!({"corpus_line": l}));
        }
    }
    let feats: Vec<String> = listings.iter().map(|(n, _, f)| format!("{n}: {f}")).collect();
    let fin = Finish {
        level: "exploration",
        rule: "a digest binary that depends on flacenc only (configuration built in code) is built with --no-default-features, default, default+decode, default+decode+experimental and with each optional feature (log, par, serde, decode, experimental) alone; the thorough tier builds every one of the 32 subsets of those five features; each prints one hash per (input, configuration) of a fixed corpus derived from VERIF_SEED (all widths, 1/2/5/8 channels, signal families, boundary configurations without experimental options, multithread true and false, integer and byte fill); all listings, and the harness's own computation, must be identical line by line; evaluations = corpus cases; distinct = distinct non-empty cases",
        assumptions: vec!["quick: the four feature sets of the project's own CI matrix and the five single-feature sets; thorough: all 32 subsets of {log, par, serde, decode, experimental}; simd-nightly / mimalloc / __export_sigen are not among the features the property names".into()],
        exhaustive: Some(false),
        floors: vec![("feature-set listings compared".into(), listings.len() as u64, ctx.tier.pick(8, 28))],
        extra: json!({"variants": feats, "feature_sets_that_do_not_build": not_buildable}),
    };
    finish(ctx, out, fin)
}
