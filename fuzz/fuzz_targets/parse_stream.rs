#![no_main]
//! C16 (never panics): arbitrary bytes into the stream parser; whatever it accepts must also
//! verify-or-not, re-serialise and decode without panicking. A panic or an ASan report is a crash.
use flacenc::bitsink::ByteSink;
use flacenc::component::{BitRepr, Decode};
use flacenc::error::Verify;
use libfuzzer_sys::fuzz_target;

type NomErr<'a> = nom::error::Error<&'a [u8]>;

fuzz_target!(|data: &[u8]| {
    if let Ok((_rest, stream)) = flacenc::component::parser::stream::<NomErr<'_>>(data) {
        let _ = stream.verify();
        for i in 0..stream.frame_count() {
            let _ = stream.frame(i).unwrap().decode();
        }
        if stream.count_bits() < (1 << 24) {
            let mut sink = ByteSink::new();
            let _ = stream.write(&mut sink);
        }
    }
});
