#!/usr/bin/env python3
# builds /verif/seeded/<id>/ for the round-10 seeds from /tmp/seed10/out/<P>/{S,T}.patch etc.
import json, os, shutil, glob
props = {json.loads(l)['id']: json.loads(l)['title'] for l in open('/verif/properties.jsonl')}
# id: (site, change, needs, strengthening-if-silent)
M = {
 'C01-S': ('src/coding.rs stream_specs() (new thread-local cache) used by encode_frame_impl', 'frame-header sample-size / sample-rate specs cached per thread, keyed by the sample rate only', 'two single-thread encodes on one thread with the same rate and different bit depths (44.1 kHz 16-bit, then 24-bit)', ''),
 'C01-T': ('src/constant.rs MIN_BLOCK_SIZE_FOR_PREDICTION', 'constant lowered from 64 to MIN_BLOCK_SIZE (32): blocks of 32..=63 samples reach the predictors, rice.rs finest_partition_order underflows', 'a non-constant block of 32..=63 samples (final block or configured block size)', ''),
 'C02-S': ('src/coding.rs try_stereo_coding + new dual_mono_frame', 'fast path for identical non-constant stereo channels emits left/side with a zero side subframe written with bps bits instead of bps+1', 'identical left/right channels (non-constant) and a frame whose bits before padding are a multiple of 8 (one frame in eight)', ''),
 'C02-T': ('src/lpc.rs find_shift', 'log2 estimate + clamp replaced by a doubling search whose guard is off by one: shift 16 is written as -16 into the 5-bit field', 'an LPC subframe whose coefficients are all <= 0.25 (noise-like input with fixed predictors off, or faintly coloured noise at block 16384)', ''),
 'C03-S': ('src/par.rs hash_queued_blocks() (MD5 helper thread body)', 'with a full 16-slot hash queue the thread merges the backlog and hashes it in one call, but leaves the loop on the stop message before the merged blocks are hashed', 'multi-thread mode with the MD5 thread about 16 blocks behind at end of input (15-17 blocks of 32 samples, 8 workers); schedule dependent', ''),
 'C03-T': ('src/par.rs encode_with_fixed_block_size (last statement)', 'total_samples computed as (frame_count - 1) * block_size + last frame size instead of taken from the MD5 context', 'multi-thread mode and a source that hands out a short block that is not the last one', ''),
 'C04-S': ('src/component/datatype.rs Frame (cached bit count) + bitrepr.rs Frame::count_bits', 'header + subframe bit count cached at construction; stale after encode_fixed_size_frame sets the frame number through header_mut()', 'multithread = false, more than 128 frames, the smallest or largest frame at index 128 or later', ''),
 'C04-T': ('src/coding.rs encode_with_fixed_block_size (single-thread)', 'early return when the first read is non-empty and shorter than one block skips the epilogue that restores the block-size bounds', 'multithread = false and an input shorter than one block (1..15 samples make min_block_size < 16)', ''),
 'C06-S': ('src/par.rs worker closure in encode_with_fixed_block_size', 'enqueue_refill(bufid) hoisted out of the Ok/Err arms but the old call left behind in the error arm: every rejected block returns its buffer id twice', 'three or more out-of-range blocks in one stream (two with one worker): the refill queue overflows, a worker blocks in send, join hangs', ''),
 'C06-T': ('src/par.rs feed_fixed_block_size + new ParFrameBuf rejected flag', '"fail-fast" early return once a worker has rejected a block skips request_stop(workers)', 'an out-of-range block more than about 2*workers+1 blocks before the end of the stream', ''),
 'C08-S': ('src/component/bitrepr.rs encode_to_utf8like', 'trailing-byte division replaced by a match table whose last boundary is off by one (27..=30 => 5): numbers in 2^30..2^31-1 are written in the over-long 7-byte form while count_bits() charges 6', 'a frame number / start-sample number in 2^30..2^31-1', ''),
 'C09-T': ('src/coding.rs encode_frame ("loose mid-side")', 'the full L/R/M/S search only on frames whose number is a multiple of 4; frames in between reuse the thread\'s last stereo decision without comparing with left+right', 'a frame where a side mode won, followed on a frame number that is no multiple of 4 by uncorrelated incompressible channels', ''),
 'C10-S': ('src/lpc.rs compute_error (64-bit fallback) + new thread-local WIDE_ERROR_BUFFER', 'per-subframe Vec<i64> allocations replaced by a grow-only thread-local scratch; relies on the (false) contract that errors may be longer than signal', 'the 64-bit path (loud 24-bit block) after an earlier, longer loud 24-bit block on the same thread', ''),
 'C11-S': ('src/bitsink.rs MemSink<u64>::write_twoc (new override)', '"fast path" narrows the value through u32: sign extension lost', 'write_twoc of a negative value with 33..=64 bits on the word sink', ''),
 'C11-T': ('src/bitsink.rs MemSink<u8>::write_zeros', 'short runs copied from a constant zero block; the long-run branch calls resize(bytes, 0) with the count to add as if it were the absolute length', 'a zero run needing more than 16 new bytes on a ByteSink', ''),
 'C12-S': ('src/component/bitrepr.rs StreamInfo::write + new FieldWriter', 'builder-style writer keeps the first sink error, but put_bytes (MD5) lacks the "already failed" guard: 17 further operations reach the sink after the failure', 'a fault on one of the 8 STREAMINFO field writes and a sink that fails once and then accepts', ''),
 'C12-T': ('src/error.rs OutputError::from_sink + new release_scratch_buffers', 'from_sink frees the per-thread frame buffer on any sink error while Frame::write still holds it mutably borrowed: RefCell panic instead of the error', 'a frame without a precomputed bitstream (single-thread / parsed / constructed) and a fault at the frame-body or CRC-16 operation', ''),
 'C13-S': ('src/rice.rs PrcBitTable::merge', 'when the merged p=0 lane exceeds 2^28-1 all 16 lanes are saturated: coarser orders of loud blocks look unaffordable, a finer-than-optimal order is emitted', 'a loud 20/24-bit block whose folded-residual sum per merged partition is >= 2^28 while Rice with p <= 14 still beats verbatim', ''),
 'C13-T': ('src/rice.rs eval_partitions', 'libFLAC-style parameter search distance: each partition after the first is searched only up to the previous parameter + 4', 'a quiet-to-loud onset of >= 32x between adjacent partitions inside one block', ''),
 'C14-S': ('src/source.rs FrameBuf.filled_size (u16) + fill_interleaved', 'the integer path narrows the interleaved length before dividing (len as u16 / channels as u16), the byte path after', 'channels x fill length >= 65536 (3 channels x 24000)', ''),
 'C14-T': ('src/source.rs Context::fill_le_bytes', '"redundant" early return for an empty block removed: an empty byte block bumps frame_count, an empty integer block does not', 'a zero-length byte block followed by more data in a caller-driven loop', ''),
 'C15-S': ('src/component/parser.rs frame() + new SampleRateSpec::freq() in datatype.rs', 'new "frame sample rate must match StreamInfo" check whose tens-of-Hz arm multiplies in u16', 'a rate in 65540..=95990 that is a multiple of 10 but not of 1000 (72050, 95900)', ''),
 'C15-T': ('src/component/parser.rs stream() + new Stream::metadata_mut()', 'parsed metadata blocks moved into the Stream bypassing add_metadata_block, the only place that cleared STREAMINFO\'s is_last flag', 'a stream with any extra metadata block: parses and verifies but re-serialises with byte 4 = 0x80', ''),
 'C16-S': ('src/component/datatype.rs Stream::add_metadata_block', 'new assert that the block being added is not a STREAMINFO; the parser maps type 0 to STREAMINFO for every metadata block and feeds later blocks to this function', 'a stream with an extra metadata block whose payload is a valid 34-byte STREAMINFO body and whose type is 0', 'C16 never put metadata blocks of arbitrary type into its streams and flipped bits of the frame region only: metablocks sub-workload (every type tag 0..=127 x STREAMINFO-shaped and other payloads x three positions; every bit flip of such a metadata region)'),
 'C16-T': ('src/component/parser.rs subframe_header / constant / verbatim + new stored_bits', 'wasted-bits support for CONSTANT and VERBATIM subframes with an off-by-one guard (wasted > bits_per_sample): u_to_i(0, 0) underflows before the CRC-16 check', 'a CONSTANT subframe of value +1 or a VERBATIM block whose first sample is 1, with the wasted-bits flag flipped', ''),
 'C17-S': ('src/par.rs encode_with_fixed_block_size (tail)', 'the feeder result is no longer propagated ("the stats are only used for the log line"): a fill error reported through read_samples yields Ok(truncated stream)', 'multi-thread mode and a source whose fill is refused (too many samples, wrong bytes-per-sample)', ''),
 'C17-T': ('src/component/verify.rs Verify for StreamInfo', 'channel check 1..=8 tidied to ..=MAX_CHANNELS: the lower bound is gone', 'encode_fixed_size_frame with a deserialised StreamInfo of exactly 0 channels', ''),
 'C18-S': ('src/component/bitrepr.rs Constant::write', 'zero header byte and DC offset written in one write_lsbs of 8 + bits_per_sample bits on a u32: 33 bits for a 25-bit side-channel Constant', 'a Constant subframe of 25 bits (side channel of a 24-bit frame, or Constant::new(_, _, 25))', ''),
 'C18-T': ('src/component/datatype.rs MetadataBlockData::new_unknown', 'range check 1..=126 rewritten as "not 0 and not 127": tags 128..=255 accepted', 'new_unknown with a tag of 128 or more, written through a Stream', ''),
 'C19-S': ('src/config.rs OrderSel (hand-written Deserialize)', 'tag-dispatching visit_map skips every key seen before `type`: partitions falls back to 16 whenever it precedes the tag', 'a table whose partitions key precedes type (hand-written / inline tables, any trip through the key-sorted toml::Value)', ''),
 'C19-T': ('src/config.rs Encoder.block_size + new deserialize_block_size', 'parse-time range check written with an exclusive upper bound where verify uses ..=', 'block_size = 32767', ''),
 'C20-S': ('src/component/verify.rs StreamInfo::verify', 'verify requires min_block_size >= 16; the single-thread path verifies the live STREAMINFO that add_frame lowers, multi-thread workers a snapshot cloned before the first frame', 'a source delivering a block of fewer than 16 samples that is not the last one: the build without par returns Err, the default build emits a stream', ''),
 'C20-T': ('src/coding.rs try_stereo_coding', 'on an exact tie between channel assignments keep the assignment of the previous frame, remembered per thread', 'a frame where right/side strictly wins followed by dual-mono frames, at least 2 workers (multi-thread workers have no history)', ''),
}
M.update(json.load(open('/tmp/seed10/extra_meta.json')) if os.path.exists('/tmp/seed10/extra_meta.json') else {})
final = {}
for f in glob.glob('/tmp/seed10/intake.*.log'):
    for line in open(f):
        t = line.strip().split(' | ')
        if len(t) >= 3:
            final[t[0]] = (t[1], t[2], t[3] if len(t) > 3 else '')
kept = 0
for sid, rec in M.items():
    p, l = sid.split('-')
    src = f'/tmp/seed10/out/{p}'
    if sid not in final or 'suite=pass' not in final[sid][0] or 'demo_with=fail' not in final[sid][0] or 'demo_without=pass' not in final[sid][0]:
        print('NOT CONFIRMED', sid, final.get(sid))
        continue
    d = f'/verif/seeded/{sid}'
    os.makedirs(d, exist_ok=True)
    shutil.copy(f'{src}/{l}.patch', f'{d}/patch.diff')
    shutil.copy(f'{src}/{l}_demo.rs', f'{d}/demo.rs')
    shutil.copy(f'{src}/{l}.txt', f'{d}/description.txt')
    site, change, needs, added = rec
    fired = f'FIRED:[ {p} ]' in final[sid][1]
    meta = {'id': sid, 'property': p, 'property_title': props[p], 'round': 10, 'site': site, 'change': change, 'needs_to_manifest': needs,
            'origin': 'written by a fresh sub-agent that was given the property text, a scratch worktree of /repo and the list of sites earlier rounds had used (nothing from /verif)',
            'confirmed': {'how': 'tools/seedverify.sh <worktree> patch.diff demo.rs in a scratch worktree of /repo (HEAD 59ba97d)',
                          'result': final[sid][0],
                          'repository_suite_with_change': 'cargo test --workspace --no-fail-fast --offline: 163 passed', 'demo_with_change': 'fails', 'demo_without_change': 'passes'},
            'first_confrontation': 'fired' if fired else 'silent', 'strengthening': added,
            'scratch_run_of_committed_checks': {'command': 'tools/seedintake.sh (scratch worktree of /repo HEAD + snapshot of /verif HEAD before the round-10 strengthening), ./check %s quick' % p, 'result': final[sid][1], 'signatures': final[sid][2]}}
    json.dump(meta, open(f'{d}/meta.json', 'w'), indent=1)
    kept += 1
os.makedirs('/verif/seeded/_notes_round10', exist_ok=True)
for f in glob.glob('/tmp/seed10/out/C*/notes.txt'):
    shutil.copy(f, '/verif/seeded/_notes_round10/%s.notes.txt' % f.split('/')[-2])
print(kept, 'kept of', len(M))
