//! C17 (invalid arguments -> errors, not panics) and C18 (constructors total and imply
//! serialisability). Every call runs inside a supervised child (a hang, abort or OOM is
//! contained and reported by the parent).

use crate::common::{catch, finish, Ctx, Finish, Outcome, Tier};
use crate::enc;
use crate::gen::{self, Audio, FillMode, TestSource};
use crate::mon_stream::check_bits;
use crate::prng::{self, Rng};
use crate::refdec;
use crate::supervise::{self, ScenarioEnd};
use flacenc::component::*;
use flacenc::config;
use flacenc::error::Verify;
use flacenc::source::{Context, Fill, FrameBuf};
use serde_json::{json, Value};
use std::num::NonZeroUsize;
use std::sync::{Arc, Mutex};
use std::time::Duration;

const M: usize = usize::MAX;

// ================================================================ C17

#[derive(Clone, Debug)]
pub enum Spec17 {
    StreamEnc { mt: bool, channels: usize, bps: usize, rate: usize, block: usize },
    FrameNum { n: usize },
    FrameBadSample { bps: usize, value: i32, pos: u8 },
    StreamInfoNew { rate: usize, channels: usize, bps: usize },
    StreamNew { rate: usize, channels: usize, bps: usize },
    FrameBufNew { channels: usize, size: usize },
    FillInt { target: u8, channels: usize, cap: usize, samples: usize },
    FillBytes { target: u8, channels: usize, cap: usize, bps: usize, bytes_per_sample: usize, nbytes: usize },
    SourceBytes { mt: bool, bps: usize, bytes_per_sample: usize },
    /// a slice whose length is not a whole number of inter-channel samples (ints) or of samples
    /// (bytes): `extra` elements/bytes beyond `whole` inter-channel samples
    FillRagged { target: u8, bytes: bool, channels: usize, cap: usize, bps: usize, whole: usize, extra: usize },
    /// with_size(cap) -> resize(new_size) -> fill of `samples` inter-channel samples
    FillAfterResize { bytes: bool, channels: usize, cap: usize, new_size: usize, samples: usize },
    /// frame-level: a buffer of capacity 64 filled with `filled` samples per channel, one sample
    /// (channel `ch`, position first/middle/last of the filled part) outside the width
    FramePartialBad { channels: usize, filled: usize, ch: usize, pos: u8, value: i32 },
    /// stream-level: `blocks` full 64-sample blocks plus a tail of `tail` samples; out-of-range
    /// samples either everywhere (`all_bad`) or once in the last block (channel `ch`, last position)
    StreamBadSample { mt: bool, workers: usize, channels: usize, blocks: usize, tail: usize, all_bad: bool, ch: usize },
    /// one FrameBuf used through BOTH fill flavours: `first_bytes` valid bytes-per-sample fill
    /// (0 = a valid integer fill), then an integer (or byte) fill holding one out-of-range sample
    FrameMixedFills { first_bytes: usize, second_bytes: bool, channels: usize, value: i32 },
    /// the library's own MemSource (its len_hint divides by the channel count) through the
    /// stream-level entry point
    MemSourceEnc { mt: bool, channels: usize, bps: usize, rate: usize },
    /// frame-level entry point on a buffer that holds no sample (block size 0): how = 0 never
    /// filled, 1 filled with an empty slice, 2 filled, then filled with an empty slice
    FrameEmpty { channels: usize, how: u8, bytes: bool },
    /// with_size(64) -> resize(new_size) -> fill of min(new_size, 70000).max(10) samples ->
    /// encode_fixed_size_frame: a block size outside 1..=32767 must be refused, not truncated
    FrameAfterResize { channels: usize, new_size: usize, bytes: bool },
    /// Context::new(bps, channels) with a channel count outside 1..=8, then a fill
    ContextChannels { channels: usize, bytes: bool },
    /// a hashing context declared with a sample width of 0 bits (0 bytes per sample)
    ContextWidth0 { channels: usize, bytes: bool, empty: bool },
    /// one out-of-range sample at position `t` of channel `ch` in a block of `filled` samples
    /// (buffer / block size `block`); frame level, or the last block of a 2-full-blocks stream;
    /// `cfgk`: 0 default, 1 no predictors, 2 verbatim only, 3 fixed order 0 only
    BadSampleAt { stream: bool, mt: bool, channels: usize, block: usize, filled: usize, ch: usize, t: usize, cfgk: u8 },
    /// frame-level encode with a `StreamInfo` that was DESERIALISED (TOML document, the `serde`
    /// feature) instead of built with `StreamInfo::new`: the fields hold whatever the document says
    FrameInfoDeser { channels: usize, bps: usize, rate: usize },
    /// the stream-level entry point with an invalid argument and a source that holds `len`
    /// samples (0 = empty, 1, 5), with or without a length hint: an invalid argument is an error
    /// whether or not there is anything to encode
    StreamEncShort { mt: bool, channels: usize, bps: usize, rate: usize, block: usize, len: usize, hint: bool },
}

fn channel_values() -> Vec<usize> {
    vec![0, 1, 2, 8, 9, 255, 256, 256 + 2, 65536 + 2, (1 << 32) + 2, M]
}
fn bps_values() -> Vec<usize> {
    vec![0, 1, 4, 7, 8, 9, 12, 13, 16, 17, 20, 21, 24, 25, 28, 29, 32, 33, 256 + 16, 65536 + 16, (1 << 32) + 16, M]
}
fn rate_values() -> Vec<usize> {
    vec![0, 1, 44100, 96000, 96001, 655_350, 655_351, 1 << 20, (1 << 32) + 44100, M]
}
fn block_values() -> Vec<usize> {
    vec![0, 1, 15, 16, 31, 32, 4096, 32767, 32768, 65535, 65536, 65536 + 4096, (1 << 32) + 4096, M]
}

pub fn grid17() -> Vec<Spec17> {
    let mut g = vec![];
    for mt in [false, true] {
        for c in channel_values() {
            g.push(Spec17::StreamEnc { mt, channels: c, bps: 16, rate: 44100, block: 256 });
        }
        for b in bps_values() {
            g.push(Spec17::StreamEnc { mt, channels: 2, bps: b, rate: 44100, block: 256 });
        }
        for r in rate_values() {
            g.push(Spec17::StreamEnc { mt, channels: 2, bps: 16, rate: r, block: 256 });
        }
        for b in block_values() {
            g.push(Spec17::StreamEnc { mt, channels: 2, bps: 16, rate: 44100, block: b });
        }
        for bps in [8usize, 12, 16, 20, 24] {
            for by in [0usize, 1, 2, 3, 4, 5, 8, M] {
                g.push(Spec17::SourceBytes { mt, bps, bytes_per_sample: by });
            }
        }
    }
    for n in [0usize, 1, (1 << 31) - 1, 1 << 31, (1 << 31) + 1, (1 << 32) - 1, 1 << 32, (1 << 32) + 5, 1 << 36, M] {
        g.push(Spec17::FrameNum { n });
    }
    for bps in [8usize, 12, 16, 20, 24] {
        let over = 1i32 << (bps - 1);
        for value in [over, -over - 1, over + 1, i32::MAX, i32::MIN, over - 1, -over] {
            for pos in 0..3u8 {
                g.push(Spec17::FrameBadSample { bps, value, pos });
            }
        }
    }
    for c in channel_values() {
        g.push(Spec17::StreamInfoNew { rate: 44100, channels: c, bps: 16 });
        g.push(Spec17::StreamNew { rate: 44100, channels: c, bps: 16 });
        for s in [32usize, 4096] {
            g.push(Spec17::FrameBufNew { channels: c, size: s });
        }
    }
    for b in bps_values() {
        g.push(Spec17::StreamInfoNew { rate: 44100, channels: 2, bps: b });
        g.push(Spec17::StreamNew { rate: 44100, channels: 2, bps: b });
    }
    for r in rate_values() {
        g.push(Spec17::StreamInfoNew { rate: r, channels: 2, bps: 16 });
        g.push(Spec17::StreamNew { rate: r, channels: 2, bps: 16 });
    }
    for s in block_values() {
        for c in [1usize, 2, 8] {
            g.push(Spec17::FrameBufNew { channels: c, size: s });
        }
    }
    for target in 0..3u8 {
        for channels in [1usize, 2, 3, 8] {
            for cap in [32usize, 100] {
                for samples in [0, 1, cap - 1, cap, cap + 1, cap + 31, cap * 2, cap * 100] {
                    g.push(Spec17::FillInt { target, channels, cap, samples });
                }
                for (bps, by) in [(16usize, 2usize), (16, 0), (16, 1), (16, 3), (16, 4), (16, 5), (24, 3), (24, 2), (24, 4), (8, 1), (8, 2), (12, 2), (12, 1), (20, 3), (20, 4), (16, M)] {
                    for n in [cap, cap + 1, cap * 3] {
                        g.push(Spec17::FillBytes { target, channels, cap, bps, bytes_per_sample: by, nbytes: n * channels * by.clamp(1, 8) });
                    }
                }
            }
        }
    }
    for target in 0..3u8 {
        for bytes in [false, true] {
            for (channels, bps) in [(2usize, 16usize), (3, 24), (8, 16), (2, 24), (5, 12)] {
                let unit = if bytes { (bps + 7) / 8 } else { channels };
                for whole in [0usize, 1, 31, 32] {
                    for extra in 1..unit.min(4) {
                        g.push(Spec17::FillRagged { target, bytes, channels, cap: 32, bps, whole, extra });
                    }
                }
            }
        }
    }
    for channels in [1usize, 2, 3, 8] {
        for filled in [64usize, 63, 40, 17, 2, 1] {
            for ch in 0..channels.min(3) {
                let ch = if ch == 2 { channels - 1 } else { ch };
                for pos in 0..3u8 {
                    for value in [1i32 << 15, -(1 << 15) - 1, i32::MAX] {
                        g.push(Spec17::FramePartialBad { channels, filled, ch, pos, value });
                    }
                }
            }
        }
    }
    for mt in [false, true] {
        for workers in [1usize, 2, 4] {
            if !mt && workers != 1 {
                continue;
            }
            for channels in [1usize, 2, 3] {
                for (blocks, tail) in [(1usize, 0usize), (1, 17), (3, 1), (12, 0), (12, 40), (0, 5)] {
                    g.push(Spec17::StreamBadSample { mt, workers, channels, blocks, tail, all_bad: true, ch: 0 });
                    for ch in 0..channels {
                        g.push(Spec17::StreamBadSample { mt, workers, channels, blocks, tail, all_bad: false, ch });
                    }
                }
            }
        }
    }
    for first_bytes in [0usize, 1, 2, 3, 4] {
        for second_bytes in [false, true] {
            for channels in [1usize, 2, 3] {
                for value in [40_000i32, -40_000, 1 << 15, -(1 << 15) - 1, i32::MAX, i32::MIN] {
                    g.push(Spec17::FrameMixedFills { first_bytes, second_bytes, channels, value });
                }
            }
        }
    }
    for mt in [false, true] {
        for c in channel_values() {
            g.push(Spec17::MemSourceEnc { mt, channels: c, bps: 16, rate: 44100 });
        }
        for b in [0usize, 1, 7, 8, 16, 24, 25, 32, 33, 256 + 16, M] {
            g.push(Spec17::MemSourceEnc { mt, channels: 2, bps: b, rate: 44100 });
        }
        for r in rate_values() {
            g.push(Spec17::MemSourceEnc { mt, channels: 2, bps: 16, rate: r });
        }
    }
    for mt in [false, true] {
        for len in [0usize, 1, 5] {
            for hint in [false, true] {
                for b in block_values() {
                    g.push(Spec17::StreamEncShort { mt, channels: 2, bps: 16, rate: 44100, block: b, len, hint });
                }
                for c in [0usize, 9, 256 + 2] {
                    g.push(Spec17::StreamEncShort { mt, channels: c, bps: 16, rate: 44100, block: 256, len, hint });
                }
                for b in [0usize, 7, 25, 33, 256 + 16] {
                    g.push(Spec17::StreamEncShort { mt, channels: 2, bps: b, rate: 44100, block: 256, len, hint });
                }
                for r in [96001usize, 1 << 20, (1 << 32) + 44100] {
                    g.push(Spec17::StreamEncShort { mt, channels: 2, bps: 16, rate: r, block: 256, len, hint });
                }
            }
        }
    }
    for bytes in [false, true] {
        for channels in [1usize, 2, 3, 8] {
            for how in 0..3u8 {
                g.push(Spec17::FrameEmpty { channels, how, bytes });
            }
        }
        for channels in [1usize, 2] {
            for new_size in [0usize, 1, 31, 32767, 32768, 40000, 65535, 65536, 65536 + 100, 70000] {
                g.push(Spec17::FrameAfterResize { channels, new_size, bytes });
            }
        }
        for channels in [0usize, 9, 256, M] {
            g.push(Spec17::ContextChannels { channels, bytes });
        }
        for channels in [1usize, 2, 8] {
            for empty in [false, true] {
                g.push(Spec17::ContextWidth0 { channels, bytes, empty });
            }
        }
    }
    // an out-of-range sample at EVERY position of a block whose length is no multiple of any
    // vector width (and at the positions around 8/16/64-sample boundaries of longer ones), under
    // configurations that do no arithmetic on the samples as well as under the default
    for (block, filled) in [(100usize, 100usize), (191, 191), (257, 65), (4096, 1000), (4097, 4097)] {
        let ts: Vec<usize> = if filled <= 191 {
            (0..filled).collect()
        } else {
            let mut v = vec![0usize, 1, 7, 8, 15, 16, 63, 64, 65, filled / 2];
            for d in [65usize, 64, 63, 33, 32, 31, 17, 16, 15, 9, 8, 7, 3, 2, 1] {
                v.push(filled - d);
            }
            v.push(filled - 1 - (filled - 1) % 64);
            v.push(filled - filled % 64);
            v.retain(|t| *t < filled);
            v
        };
        for channels in [1usize, 2, 3] {
            for ch in [0usize, channels - 1] {
                if ch == 0 && channels > 1 && filled <= 191 && block != 100 {
                    continue;
                }
                for (i, t) in ts.iter().enumerate() {
                    let cfgks: Vec<u8> = if filled <= 191 { vec![((i + ch) % 4) as u8] } else { vec![0, 1, 2, 3] };
                    for cfgk in cfgks {
                        g.push(Spec17::BadSampleAt { stream: false, mt: false, channels, block, filled, ch, t: *t, cfgk });
                    }
                }
            }
        }
    }
    for channels in [0usize, 1, 2, 3, 8, 9, 255] {
        for bps in [0usize, 1, 7, 8, 16, 24, 25, 32, 33, 64, 255] {
            g.push(Spec17::FrameInfoDeser { channels, bps, rate: 44100 });
        }
    }
    for rate in [0usize, 96_000, 96_001, 655_350, 1 << 20, u32::MAX as usize] {
        g.push(Spec17::FrameInfoDeser { channels: 2, bps: 16, rate });
    }
    for mt in [false, true] {
        for block in [100usize, 1000] {
            for filled in [block, 37, 99] {
                let mut ts = vec![0usize, filled / 2, filled - 1, filled - 2, filled - 1 - (filled - 1) % 64];
                ts.dedup();
                for t in ts {
                    for channels in [1usize, 2] {
                        for cfgk in 0..4u8 {
                            g.push(Spec17::BadSampleAt { stream: true, mt, channels, block, filled, ch: channels - 1, t, cfgk });
                        }
                    }
                }
            }
        }
    }
    for bytes in [false, true] {
        for channels in [1usize, 2, 8] {
            for (cap, new_size) in [(100usize, 150usize), (150, 100), (64, 32), (32, 64), (4096, 32), (100, 101)] {
                for samples in [new_size - 1, new_size, new_size + 1, cap.max(new_size), cap.max(new_size) + 1, new_size + new_size / 3, 2 * new_size] {
                    g.push(Spec17::FillAfterResize { bytes, channels, cap, new_size, samples });
                }
            }
        }
    }
    g
}

#[derive(Debug, PartialEq, Eq, Clone, Copy)]
enum Dom {
    Valid,
    Invalid,
    /// in-between widths the code tolerates: either an error or a correct lossless encode
    Tolerated,
    /// argument classes the property does not list (a slice that is not a whole number of
    /// samples): observed and counted, any terminating outcome is accepted
    Unlisted,
}

fn width_dom(bps: usize) -> Dom {
    if [8usize, 12, 16, 20, 24].contains(&bps) {
        Dom::Valid
    } else if (8..=24).contains(&bps) {
        Dom::Tolerated
    } else {
        Dom::Invalid
    }
}

fn domain17(s: &Spec17) -> Dom {
    let all = |v: &[Dom]| {
        if v.contains(&Dom::Invalid) {
            Dom::Invalid
        } else if v.contains(&Dom::Tolerated) {
            Dom::Tolerated
        } else {
            Dom::Valid
        }
    };
    let ch = |c: usize| if (1..=8).contains(&c) { Dom::Valid } else { Dom::Invalid };
    let rt = |r: usize| if r <= 96000 { Dom::Valid } else { Dom::Invalid };
    let bl = |b: usize| if (32..=32767).contains(&b) { Dom::Valid } else { Dom::Invalid };
    match s {
        Spec17::StreamEnc { channels, bps, rate, block, .. } | Spec17::StreamEncShort { channels, bps, rate, block, .. } => all(&[ch(*channels), width_dom(*bps), rt(*rate), bl(*block)]),
        Spec17::FrameNum { n } => {
            if *n < (1usize << 31) {
                Dom::Valid
            } else {
                Dom::Invalid
            }
        }
        Spec17::FrameBadSample { bps, value, .. } => {
            let lim = 1i64 << (bps - 1);
            if (-lim..lim).contains(&i64::from(*value)) {
                Dom::Valid
            } else {
                Dom::Invalid
            }
        }
        Spec17::StreamInfoNew { rate, channels, bps } | Spec17::StreamNew { rate, channels, bps } => all(&[ch(*channels), width_dom(*bps), rt(*rate)]),
        Spec17::FrameBufNew { channels, size } => all(&[ch(*channels), bl(*size)]),
        Spec17::FillInt { target, channels, cap, samples } => {
            // Context (target 1) has no capacity; FrameBuf / tuple do
            let _ = channels;
            if *target != 1 && *samples > *cap {
                Dom::Invalid
            } else {
                Dom::Valid
            }
        }
        Spec17::FillBytes { target, channels, cap, bps, bytes_per_sample, nbytes } => {
            if *bytes_per_sample == 0 || *bytes_per_sample > 4 {
                return Dom::Invalid;
            }
            let samples = nbytes / bytes_per_sample;
            let too_long = *target != 1 && samples > cap * channels;
            let mismatch = *target != 0 && *bytes_per_sample != (bps + 7) / 8;
            if too_long || mismatch {
                Dom::Invalid
            } else {
                Dom::Valid
            }
        }
        Spec17::SourceBytes { bps, bytes_per_sample, .. } => {
            if *bytes_per_sample == (bps + 7) / 8 {
                Dom::Valid
            } else {
                Dom::Invalid
            }
        }
        Spec17::FillRagged { .. } => Dom::Unlisted,
        Spec17::FramePartialBad { .. } | Spec17::StreamBadSample { .. } => Dom::Invalid,
        Spec17::FrameMixedFills { second_bytes, value, .. } => {
            // a 4-byte little-endian sample can carry any i32; the frame is declared 16 bit
            let _ = second_bytes;
            if (-(1i64 << 15)..(1i64 << 15)).contains(&i64::from(*value)) { Dom::Valid } else { Dom::Invalid }
        }
        Spec17::MemSourceEnc { channels, bps, rate, .. } => all(&[ch(*channels), width_dom(*bps), rt(*rate)]),
        Spec17::FillAfterResize { new_size, samples, .. } => {
            if samples > new_size {
                Dom::Invalid
            } else {
                Dom::Valid
            }
        }
        Spec17::FrameEmpty { .. } => Dom::Invalid,
        // a frame (possibly the short last one) holds 1..=32767 samples
        Spec17::FrameAfterResize { new_size, .. } => {
            if (1..=32767).contains(new_size) {
                Dom::Valid
            } else {
                Dom::Invalid
            }
        }
        // Context::new cannot refuse; the fill is the first call that can. Zero channels must be
        // an error (it used to divide by zero). A Context is not a frame buffer and more than 8
        // channels harm nothing there (it hashes and counts): observed, not judged.
        Spec17::ContextChannels { channels, .. } => {
            if *channels == 0 {
                Dom::Invalid
            } else {
                Dom::Unlisted
            }
        }
        // a sample width of 0 bits is an unsupported width; Context::new cannot refuse, the fill
        // of a non-empty block is the first call that can (an empty block carries no sample of
        // any width: observed, not judged)
        Spec17::ContextWidth0 { empty, .. } => {
            if *empty {
                Dom::Unlisted
            } else {
                Dom::Invalid
            }
        }
        Spec17::BadSampleAt { .. } => Dom::Invalid,
        // the frame buffer in these cases always holds 2 channels of 16-bit material
        Spec17::FrameInfoDeser { channels, bps, rate } => {
            if *channels == 2 && *bps == 16 && *rate <= 96_000 {
                Dom::Valid
            } else if *channels == 0 || *channels > 8 || !(8..=24).contains(bps) || *rate > 96_000 {
                Dom::Invalid
            } else {
                // a StreamInfo that disagrees with the frame buffer (other channel count, other
                // supported width): not an argument class the property lists
                Dom::Unlisted
            }
        }
    }
}

fn small_audio(channels: usize, bps: usize, rate: usize, len: usize, seed: u64) -> Arc<Audio> {
    let mut rng = Rng::for_case(seed, "C17.audio", channels.wrapping_mul(1000).wrapping_add(bps) as u64);
    let b = bps.clamp(4, 24);
    Arc::new(gen::gen_audio_family(&mut rng, channels.clamp(1, 8), b, rate, len, "sine_noise"))
}

/// outcome: "Ok", "Ok-lossless", "Ok-WRONG:<why>", "Err", "Panic:<site>:<msg>"
fn exec17(s: &Spec17) -> String {
    let mut cfg = config::Encoder::default();
    cfg.workers = NonZeroUsize::new(2);
    let r = catch(|| -> String {
        match s {
            Spec17::StreamEnc { mt, channels, bps, rate, block } => {
                cfg.multithread = *mt;
                cfg.block_size = 256;
                let v = enc::verified(&cfg).unwrap();
                let a = small_audio(*channels, *bps, 44100, 700, 1);
                let mut src = TestSource::new(Arc::clone(&a), FillMode::Int, false);
                src.report = Some((*channels, *bps, *rate));
                match flacenc::encode_with_fixed_block_size(&v, src, *block) {
                    Ok(stream) => match enc::to_bytes(&stream) {
                        Ok(bytes) => {
                            let rep = refdec::decode_stream(&bytes);
                            if rep.fatal().is_none() && rep.pcm == a.samples && rep.info.bps as usize == *bps && rep.info.channels as usize == *channels && rep.info.rate as usize == *rate {
                                "Ok-lossless".into()
                            } else {
                                format!("Ok-WRONG:stream states rate={} ch={} bps={} (decodable={})", rep.info.rate, rep.info.channels, rep.info.bps, rep.fatal().is_none())
                            }
                        }
                        Err(e) => format!("Ok-WRONG:unserialisable {e:?}").chars().take(120).collect(),
                    },
                    Err(_) => "Err".into(),
                }
            }
            Spec17::StreamEncShort { mt, channels, bps, rate, block, len, hint } => {
                cfg.multithread = *mt;
                cfg.block_size = 256;
                let v = enc::verified(&cfg).unwrap();
                let a = small_audio(*channels, *bps, 44100, *len, 3);
                let mut src = TestSource::new(Arc::clone(&a), FillMode::Int, *hint);
                src.report = Some((*channels, *bps, *rate));
                match flacenc::encode_with_fixed_block_size(&v, src, *block) {
                    Ok(stream) => match enc::to_bytes(&stream) {
                        Ok(bytes) => {
                            let rep = refdec::decode_stream(&bytes);
                            if rep.fatal().is_none() && rep.pcm == a.samples && rep.info.bps as usize == *bps && rep.info.channels as usize == *channels && rep.info.rate as usize == *rate {
                                "Ok-lossless".into()
                            } else {
                                format!("Ok-WRONG:stream states rate={} ch={} bps={} (decodable={})", rep.info.rate, rep.info.channels, rep.info.bps, rep.fatal().is_none())
                            }
                        }
                        Err(e) => format!("Ok-WRONG:unserialisable {e:?}").chars().take(120).collect(),
                    },
                    Err(_) => "Err".into(),
                }
            }
            Spec17::SourceBytes { mt, bps, bytes_per_sample } => {
                cfg.multithread = *mt;
                let v = enc::verified(&cfg).unwrap();
                let a = small_audio(2, *bps, 44100, 700, 2);
                let mut src = TestSource::new(Arc::clone(&a), FillMode::Bytes, false);
                src.bytes_per_sample = Some((*bytes_per_sample).min(64));
                if *bytes_per_sample > 64 {
                    // cannot materialise; hand the value straight to the fill operation instead
                    src.bytes_per_sample = Some(4);
                }
                match flacenc::encode_with_fixed_block_size(&v, src, 256) {
                    Ok(stream) => match enc::to_bytes(&stream) {
                        Ok(bytes) => {
                            let rep = refdec::decode_stream(&bytes);
                            if rep.issues.iter().all(|i| i.class == refdec::Class::Note) && rep.pcm == a.samples {
                                "Ok-lossless".into()
                            } else {
                                format!("Ok-WRONG:{}", rep.issues.first().map_or("audio differs".to_string(), |i| i.clause.to_string()))
                            }
                        }
                        Err(e) => format!("Ok-WRONG:unserialisable {e:?}").chars().take(120).collect(),
                    },
                    Err(_) => "Err".into(),
                }
            }
            Spec17::FrameNum { n } => {
                let v = enc::verified(&cfg).unwrap();
                let mut fb = FrameBuf::with_size(2, 64).unwrap();
                fb.fill_interleaved(&[5i32; 128]).unwrap();
                let si = StreamInfo::new(44100, 2, 16).unwrap();
                match flacenc::encode_fixed_size_frame(&v, &fb, *n, &si) {
                    Ok(f) => {
                        let b = enc::to_bytes(&f);
                        let mut issues = vec![];
                        match b.ok().and_then(|b| refdec::parse_frame_header(&b, None, &mut issues).ok()) {
                            Some(h) if h.number == *n as u64 && issues.is_empty() => "Ok-lossless".into(),
                            other => format!("Ok-WRONG:frame number decodes as {:?}", other.map(|h| h.number)),
                        }
                    }
                    Err(_) => "Err".into(),
                }
            }
            Spec17::FrameBadSample { bps, value, pos } => {
                let v = enc::verified(&cfg).unwrap();
                let mut fb = FrameBuf::with_size(2, 64).unwrap();
                let mut d = vec![1i32; 128];
                let t = match pos {
                    0 => 0,
                    1 => 64,
                    _ => 127,
                };
                d[t] = *value;
                fb.fill_interleaved(&d).unwrap();
                let si = StreamInfo::new(44100, 2, *bps).unwrap();
                match flacenc::encode_fixed_size_frame(&v, &fb, 0, &si) {
                    Ok(_) => "Ok".into(),
                    Err(_) => "Err".into(),
                }
            }
            Spec17::StreamInfoNew { rate, channels, bps } => match StreamInfo::new(*rate, *channels, *bps) {
                Ok(si) => {
                    if si.sample_rate() == *rate && si.channels() == *channels && si.bits_per_sample() == *bps {
                        "Ok".into()
                    } else {
                        format!("Ok-WRONG:holds rate={} ch={} bps={}", si.sample_rate(), si.channels(), si.bits_per_sample())
                    }
                }
                Err(_) => "Err".into(),
            },
            Spec17::StreamNew { rate, channels, bps } => match Stream::new(*rate, *channels, *bps) {
                Ok(st) => {
                    let si = st.stream_info();
                    if si.sample_rate() == *rate && si.channels() == *channels && si.bits_per_sample() == *bps {
                        "Ok".into()
                    } else {
                        format!("Ok-WRONG:holds rate={} ch={} bps={}", si.sample_rate(), si.channels(), si.bits_per_sample())
                    }
                }
                Err(_) => "Err".into(),
            },
            Spec17::FrameBufNew { channels, size } => match FrameBuf::with_size(*channels, *size) {
                Ok(fb) => {
                    if fb.size() == *size && fb.channels() == *channels {
                        "Ok".into()
                    } else {
                        format!("Ok-WRONG:size={} channels={}", fb.size(), fb.channels())
                    }
                }
                Err(_) => "Err".into(),
            },
            Spec17::FillInt { target, channels, cap, samples } => {
                let data = vec![3i32; *samples * *channels];
                let mut fb = FrameBuf::with_size(*channels, *cap).unwrap();
                let mut cx = Context::new(16, *channels);
                let r = match target {
                    0 => fb.fill_interleaved(&data),
                    1 => cx.fill_interleaved(&data),
                    _ => (&mut fb, &mut cx).fill_interleaved(&data),
                };
                match r {
                    Ok(()) => {
                        if *target != 1 && *samples > 0 {
                            // the buffer must still be usable
                            let v = enc::verified(&cfg).unwrap();
                            let si = StreamInfo::new(44100, *channels, 16).unwrap();
                            match flacenc::encode_fixed_size_frame(&v, &fb, 0, &si) {
                                Ok(f) => {
                                    if f.block_size() <= *cap {
                                        "Ok".into()
                                    } else {
                                        format!("Ok-WRONG:frame of {} samples from a buffer of {}", f.block_size(), cap)
                                    }
                                }
                                Err(_) => "Ok-WRONG:fill accepted but the buffer can no longer be encoded".into(),
                            }
                        } else {
                            "Ok".into()
                        }
                    }
                    Err(_) => "Err".into(),
                }
            }
            Spec17::FillBytes { target, channels, cap, bps, bytes_per_sample, nbytes } => {
                let data = vec![1u8; *nbytes];
                let mut fb = FrameBuf::with_size(*channels, *cap).unwrap();
                let mut cx = Context::new(*bps, *channels);
                let r = match target {
                    0 => fb.fill_le_bytes(&data, *bytes_per_sample),
                    1 => cx.fill_le_bytes(&data, *bytes_per_sample),
                    _ => (&mut fb, &mut cx).fill_le_bytes(&data, *bytes_per_sample),
                };
                match r {
                    Ok(()) => "Ok".into(),
                    Err(_) => "Err".into(),
                }
            }
            Spec17::FramePartialBad { channels, filled, ch, pos, value } => {
                let v = enc::verified(&cfg).unwrap();
                let mut fb = FrameBuf::with_size(*channels, 64).unwrap();
                // a full fill first, so that the unfilled tail of every channel holds old (valid) data
                fb.fill_interleaved(&vec![2i32; 64 * channels]).unwrap();
                let mut d = vec![1i32; filled * channels];
                let t = match pos {
                    0 => 0,
                    1 => filled / 2,
                    _ => filled - 1,
                };
                d[t * channels + ch] = *value;
                fb.fill_interleaved(&d).unwrap();
                let si = StreamInfo::new(44100, *channels, 16).unwrap();
                match flacenc::encode_fixed_size_frame(&v, &fb, 0, &si) {
                    Ok(_) => "Ok".into(),
                    Err(_) => "Err".into(),
                }
            }
            Spec17::FrameMixedFills { first_bytes, second_bytes, channels, value } => {
                let v = enc::verified(&cfg).unwrap();
                let mut fb = FrameBuf::with_size(*channels, 64).unwrap();
                // a first, valid fill through one flavour
                if *first_bytes == 0 {
                    fb.fill_interleaved(&vec![7i32; 64 * channels]).unwrap();
                } else {
                    let by = gen::to_le_bytes(&vec![7i32; 64 * channels], *first_bytes);
                    fb.fill_le_bytes(&by, *first_bytes).unwrap();
                }
                // the buffer is used once (encoded) in its valid state: whatever the buffer or the
                // encoder remember about it must not outlive the next fill
                let si0 = StreamInfo::new(44100, *channels, 16).unwrap();
                let _ = flacenc::encode_fixed_size_frame(&v, &fb, 0, &si0);
                // then a fill holding one out-of-range sample through the other (or the same) one
                let mut d = vec![1i32; 48 * channels];
                d[(20 * channels) + channels - 1] = *value;
                let r = if *second_bytes { fb.fill_le_bytes(&gen::to_le_bytes(&d, 4), 4) } else { fb.fill_interleaved(&d) };
                if r.is_err() {
                    return "Err".into();
                }
                let si = StreamInfo::new(44100, *channels, 16).unwrap();
                match flacenc::encode_fixed_size_frame(&v, &fb, 0, &si) {
                    Ok(_) => "Ok".into(),
                    Err(_) => "Err".into(),
                }
            }
            Spec17::MemSourceEnc { mt, channels, bps, rate } => {
                cfg.multithread = *mt;
                cfg.block_size = 256;
                let v = enc::verified(&cfg).unwrap();
                let samples: Vec<i32> = (0..600i32).map(|t| (t * 37) % 101 - 50).collect();
                let src = flacenc::source::MemSource::from_samples(&samples, *channels, *bps, *rate);
                match flacenc::encode_with_fixed_block_size(&v, src, 256) {
                    Ok(stream) => {
                        let si = stream.stream_info();
                        if si.channels() == *channels && si.bits_per_sample() == *bps && si.sample_rate() == *rate {
                            "Ok".into()
                        } else {
                            format!("Ok-WRONG:stream states rate={} ch={} bps={}", si.sample_rate(), si.channels(), si.bits_per_sample())
                        }
                    }
                    Err(_) => "Err".into(),
                }
            }
            Spec17::StreamBadSample { mt, workers, channels, blocks, tail, all_bad, ch } => {
                cfg.multithread = *mt;
                cfg.workers = NonZeroUsize::new(*workers);
                cfg.block_size = 64;
                let v = enc::verified(&cfg).unwrap();
                let len = blocks * 64 + tail;
                let mut samples = vec![5i32; len * channels];
                if *all_bad {
                    // 24-bit material declared as 16-bit: every block is out of range
                    for (i, x) in samples.iter_mut().enumerate() {
                        *x = if i % 2 == 0 { 3_000_000 } else { -3_000_000 };
                    }
                } else if len > 0 {
                    samples[(len - 1) * channels + ch] = 40_000;
                }
                let a = Arc::new(Audio { channels: *channels, bps: 16, rate: 44100, samples, recipe: "bad-samples".into() });
                let src = TestSource::new(a, FillMode::Int, false);
                match flacenc::encode_with_fixed_block_size(&v, src, 64) {
                    Ok(_) => "Ok".into(),
                    Err(_) => "Err".into(),
                }
            }
            Spec17::FillRagged { target, bytes, channels, cap, bps, whole, extra } => {
                let mut fb = FrameBuf::with_size(*channels, *cap).unwrap();
                let mut cx = Context::new(*bps, *channels);
                let r = if *bytes {
                    let by = (bps + 7) / 8;
                    let data = vec![1u8; whole * channels * by + extra];
                    match target {
                        0 => fb.fill_le_bytes(&data, by),
                        1 => cx.fill_le_bytes(&data, by),
                        _ => (&mut fb, &mut cx).fill_le_bytes(&data, by),
                    }
                } else {
                    let data = vec![3i32; whole * channels + extra];
                    match target {
                        0 => fb.fill_interleaved(&data),
                        1 => cx.fill_interleaved(&data),
                        _ => (&mut fb, &mut cx).fill_interleaved(&data),
                    }
                };
                match r {
                    Ok(()) => "Ok".into(),
                    Err(_) => "Err".into(),
                }
            }
            Spec17::FillAfterResize { bytes, channels, cap, new_size, samples } => {
                let mut fb = FrameBuf::with_size(*channels, *cap).unwrap();
                // a first fill (allocates whatever the buffer allocates lazily), then the resize
                let _ = if *bytes { fb.fill_le_bytes(&vec![0u8; 4 * channels * 2], 2) } else { fb.fill_interleaved(&vec![0i32; 4 * channels]) };
                fb.resize(*new_size);
                let r = if *bytes { fb.fill_le_bytes(&vec![1u8; samples * channels * 2], 2) } else { fb.fill_interleaved(&vec![3i32; samples * channels]) };
                match r {
                    Ok(()) => {
                        if *samples == 0 {
                            return "Ok".into();
                        }
                        let v = enc::verified(&cfg).unwrap();
                        let si = StreamInfo::new(44100, *channels, 16).unwrap();
                        match flacenc::encode_fixed_size_frame(&v, &fb, 0, &si) {
                            Ok(f) => {
                                if f.block_size() == *samples {
                                    "Ok".into()
                                } else {
                                    format!("Ok-WRONG:frame of {} samples after a fill of {} into a buffer resized to {}", f.block_size(), samples, new_size)
                                }
                            }
                            Err(_) => "Ok-WRONG:fill accepted but the buffer can no longer be encoded".into(),
                        }
                    }
                    Err(_) => "Err".into(),
                }
            }
            Spec17::FrameEmpty { channels, how, bytes } => {
                let mut fb = FrameBuf::with_size(*channels, 64).unwrap();
                let fill = |fb: &mut FrameBuf, n: usize| if *bytes { fb.fill_le_bytes(&vec![1u8; n * channels * 2], 2) } else { fb.fill_interleaved(&vec![3i32; n * channels]) };
                if *how == 2 && fill(&mut fb, 40).is_err() {
                    return "Err".into();
                }
                if *how >= 1 && fill(&mut fb, 0).is_err() {
                    return "Err".into();
                }
                let v = enc::verified(&cfg).unwrap();
                let si = StreamInfo::new(44100, *channels, 16).unwrap();
                match flacenc::encode_fixed_size_frame(&v, &fb, 0, &si) {
                    Ok(f) => format!("Ok-WRONG:a frame of {} samples from a buffer holding none", f.block_size()),
                    Err(_) => "Err".into(),
                }
            }
            Spec17::FrameAfterResize { channels, new_size, bytes } => {
                let mut fb = FrameBuf::with_size(*channels, 64).unwrap();
                fb.resize(*new_size);
                let n = if *new_size == 0 { 10 } else { *new_size };
                let r = if *bytes { fb.fill_le_bytes(&vec![1u8; n * channels * 2], 2) } else { fb.fill_interleaved(&vec![3i32; n * channels]) };
                if r.is_err() {
                    return "Err".into();
                }
                let v = enc::verified(&cfg).unwrap();
                let si = StreamInfo::new(44100, *channels, 16).unwrap();
                match flacenc::encode_fixed_size_frame(&v, &fb, 0, &si) {
                    Ok(f) => {
                        let bytes = enc::to_bytes(&f).unwrap_or_default();
                        let mut issues = vec![];
                        let inf = refdec::StreamInfoRaw { rate: 44100, channels: *channels as u32, bps: 16, ..Default::default() };
                        let coded = refdec::parse_frame(&bytes, 0, Some(&inf), None, &mut issues).map(|fr| fr.header.block_size).unwrap_or(0);
                        if f.block_size() == n && coded == n {
                            "Ok".into()
                        } else {
                            format!("Ok-WRONG:a fill of {n} samples gives a frame whose header states {coded} (accessor {})", f.block_size())
                        }
                    }
                    Err(_) => "Err".into(),
                }
            }
            Spec17::BadSampleAt { stream, mt, channels, block, filled, ch, t, cfgk } => {
                let sf = &mut cfg.subframe_coding;
                match cfgk {
                    1 => {
                        sf.use_fixed = false;
                        sf.use_lpc = false;
                    }
                    2 => {
                        sf.use_fixed = false;
                        sf.use_lpc = false;
                        sf.use_constant = false;
                    }
                    3 => {
                        sf.use_lpc = false;
                        sf.fixed.max_order = 0;
                        sf.fixed.order_sel = config::OrderSel::BitCount;
                    }
                    _ => {}
                }
                cfg.multithread = *mt;
                cfg.block_size = *block;
                let v = enc::verified(&cfg).unwrap();
                // valid content that is not constant (a constant block would be stored as one value)
                let valid = |n: usize| -> Vec<i32> { (0..n * channels).map(|i| ((i * 37) % 200) as i32 - 100).collect() };
                if *stream {
                    let len = 2 * block + filled;
                    let mut samples = valid(len);
                    samples[(2 * block + t) * channels + ch] = if t % 2 == 0 { 40_000 } else { -32_769 };
                    let a = Arc::new(Audio { channels: *channels, bps: 16, rate: 44100, samples, recipe: "bad-sample-at".into() });
                    let src = TestSource::new(a, FillMode::Int, t % 3 == 0);
                    match flacenc::encode_with_fixed_block_size(&v, src, *block) {
                        Ok(_) => "Ok".into(),
                        Err(_) => "Err".into(),
                    }
                } else {
                    let mut fb = FrameBuf::with_size(*channels, *block).unwrap();
                    fb.fill_interleaved(&valid(*block)).unwrap();
                    let mut d = valid(*filled);
                    d[t * channels + ch] = if t % 2 == 0 { 32_768 } else { -40_000 };
                    fb.fill_interleaved(&d).unwrap();
                    let si = StreamInfo::new(44100, *channels, 16).unwrap();
                    match flacenc::encode_fixed_size_frame(&v, &fb, 0, &si) {
                        Ok(_) => "Ok".into(),
                        Err(_) => "Err".into(),
                    }
                }
            }
            Spec17::FrameInfoDeser { channels, bps, rate } => {
                let v = enc::verified(&cfg).unwrap();
                let doc = format!("min_block_size = 64\nmax_block_size = 64\nmin_frame_size = 0\nmax_frame_size = 0\nsample_rate = {rate}\nchannels = {channels}\nbits_per_sample = {bps}\ntotal_samples = 0\nmd5 = [0, 0, 0, 0, 0, 0, 0, 0, 0, 0, 0, 0, 0, 0, 0, 0]\n");
                let si: StreamInfo = match toml::from_str(&doc) {
                    Ok(si) => si,
                    Err(_) => return "Err".into(),
                };
                let mut fb = FrameBuf::with_size(2, 64).unwrap();
                let d: Vec<i32> = (0..128).map(|i| ((i * 37) % 200) as i32 - 100).collect();
                fb.fill_interleaved(&d).unwrap();
                match flacenc::encode_fixed_size_frame(&v, &fb, 0, &si) {
                    Ok(f) => {
                        if *channels == 2 && *bps == 16 {
                            let ok = f.verify().is_ok() && enc::to_bytes(&f).is_ok();
                            if ok { "Ok-lossless".into() } else { "Ok-WRONG:the frame does not verify".into() }
                        } else {
                            "Ok".into()
                        }
                    }
                    Err(_) => "Err".into(),
                }
            }
            Spec17::ContextWidth0 { channels, bytes, empty } => {
                let mut c = flacenc::source::Context::new(0, *channels);
                let n = if *empty { 0 } else { 4 * *channels };
                let r = if *bytes { c.fill_le_bytes(&vec![1u8; n], 0) } else { c.fill_interleaved(&vec![3i32; n]) };
                match r {
                    Ok(()) => format!("Ok-WRONG:a context of 0-bit samples took a block of {n} values and counts {} samples", c.total_samples()),
                    Err(_) => "Err".into(),
                }
            }
            Spec17::ContextChannels { channels, bytes } => {
                let mut c = flacenc::source::Context::new(16, *channels);
                let r = if *bytes { c.fill_le_bytes(&[1u8; 32], 2) } else { c.fill_interleaved(&[3i32; 16]) };
                match r {
                    Ok(()) => format!("Ok-WRONG:a context of {channels} channels took a block and counts {} samples", c.total_samples()),
                    Err(_) => "Err".into(),
                }
            }
        }
    });
    match r {
        Ok(s) => s,
        Err(p) => format!("Panic:{}:{}", p.site(), p.short()),
    }
}

fn spec17_class(s: &Spec17) -> String {
    let v = |x: usize| -> String {
        if x == M {
            "MAX".into()
        } else if x >= (1 << 32) {
            format!("2^32+{}", x - (1 << 32))
        } else {
            x.to_string()
        }
    };
    match s {
        Spec17::StreamEnc { mt, channels, bps, rate, block } => format!("encode_with_fixed_block_size[{}](ch={},bps={},rate={},block={})", if *mt { "mt" } else { "st" }, v(*channels), v(*bps), v(*rate), v(*block)),
        Spec17::SourceBytes { mt, bps, bytes_per_sample } => format!("source.fill_le_bytes[{}](bps={},bytes_per_sample={})", if *mt { "mt" } else { "st" }, bps, v(*bytes_per_sample)),
        Spec17::FrameNum { n } => format!("encode_fixed_size_frame(frame_number={})", v(*n)),
        Spec17::FrameBadSample { bps, value, pos } => format!("encode_fixed_size_frame(sample={value}@{pos},bps={bps})"),
        Spec17::StreamInfoNew { rate, channels, bps } => format!("StreamInfo::new(rate={},ch={},bps={})", v(*rate), v(*channels), v(*bps)),
        Spec17::StreamNew { rate, channels, bps } => format!("Stream::new(rate={},ch={},bps={})", v(*rate), v(*channels), v(*bps)),
        Spec17::FrameBufNew { channels, size } => format!("FrameBuf::with_size(ch={},size={})", v(*channels), v(*size)),
        Spec17::FillInt { target, channels, cap, samples } => format!("{}::fill_interleaved(ch={},cap={},samples_per_channel={})", ["FrameBuf", "Context", "(FrameBuf,Context)"][*target as usize], channels, cap, samples),
        Spec17::FillBytes { target, channels, cap, bps, bytes_per_sample, nbytes } => format!("{}::fill_le_bytes(ch={},cap={},bps={},bytes_per_sample={},nbytes={})", ["FrameBuf", "Context", "(FrameBuf,Context)"][*target as usize], channels, cap, bps, v(*bytes_per_sample), nbytes),
        Spec17::FrameMixedFills { first_bytes, second_bytes, channels, value } => format!("FrameBuf({channels} ch): {} then {} holding {value}, encode_fixed_size_frame at 16 bit", if *first_bytes == 0 { "fill_interleaved".to_string() } else { format!("fill_le_bytes(.., {first_bytes})") }, if *second_bytes { "fill_le_bytes(.., 4)" } else { "fill_interleaved" }),
        Spec17::MemSourceEnc { mt, channels, bps, rate } => format!("encode_with_fixed_block_size[{}](MemSource ch={},bps={},rate={})", if *mt { "mt" } else { "st" }, v(*channels), v(*bps), v(*rate)),
        Spec17::FramePartialBad { channels, filled, ch, pos, value } => format!("encode_fixed_size_frame({channels} ch, buffer of 64 filled with {filled}, sample {value} in channel {ch} at {} of the filled part, 16 bit)", ["the start", "the middle", "the end"][*pos as usize]),
        Spec17::StreamBadSample { mt, workers, channels, blocks, tail, all_bad, ch } => format!("encode_with_fixed_block_size[{}, W={workers}]({channels} ch x 16 bit, {blocks} blocks of 64 + {tail}: {})", if *mt { "mt" } else { "st" }, if *all_bad { "every sample is 24-bit material".to_string() } else { format!("last sample of channel {ch} = 40000") }),
        Spec17::FillRagged { target, bytes, channels, cap, bps, whole, extra } => format!("{}::{}(ch={},cap={},bps={}: {} whole inter-channel samples + {} stray {})", ["FrameBuf", "Context", "(FrameBuf,Context)"][*target as usize], if *bytes { "fill_le_bytes" } else { "fill_interleaved" }, channels, cap, bps, whole, extra, if *bytes { "bytes" } else { "values" }),
        Spec17::FillAfterResize { bytes, channels, cap, new_size, samples } => format!("FrameBuf::with_size(ch={channels},{cap}) -> resize({new_size}) -> {}({samples} samples per channel)", if *bytes { "fill_le_bytes" } else { "fill_interleaved" }),
        Spec17::FrameEmpty { channels, how, bytes } => format!("encode_fixed_size_frame(FrameBuf of {channels} ch x 64 {}, {})", ["never filled", "filled with an empty slice", "filled, then filled with an empty slice"][*how as usize], if *bytes { "bytes" } else { "ints" }),
        Spec17::FrameAfterResize { channels, new_size, bytes } => format!("FrameBuf::with_size(ch={channels},64) -> resize({}) -> {} of that many samples -> encode_fixed_size_frame", v(*new_size), if *bytes { "fill_le_bytes" } else { "fill_interleaved" }),
        Spec17::ContextChannels { channels, bytes } => format!("Context::new(16, channels={}) -> {}", v(*channels), if *bytes { "fill_le_bytes" } else { "fill_interleaved" }),
        Spec17::ContextWidth0 { channels, bytes, empty } => format!("Context::new(0, channels={channels}) -> {} of {} block", if *bytes { "fill_le_bytes(.., 0)" } else { "fill_interleaved" }, if *empty { "an empty" } else { "a 4-sample" }),
        Spec17::FrameInfoDeser { channels, bps, rate } => format!("encode_fixed_size_frame(2 ch x 16 bit buffer, StreamInfo deserialised from a document: channels={}, bits_per_sample={}, sample_rate={})", v(*channels), v(*bps), v(*rate)),
        Spec17::BadSampleAt { stream, mt, channels, block, filled, ch, t, cfgk } => format!("{}({channels} ch x 16 bit, block {block}, {filled} samples in the block, out-of-range sample at {t} of channel {ch}, config {})", if *stream { if *mt { "encode_with_fixed_block_size[mt]" } else { "encode_with_fixed_block_size[st]" } } else { "encode_fixed_size_frame" }, ["default", "no predictors", "verbatim only", "fixed order 0 only"][*cfgk as usize]),
        Spec17::StreamEncShort { mt, channels, bps, rate, block, len, hint } => format!("encode_with_fixed_block_size[{}](ch={},bps={},rate={},block={}; source of {len} samples, {})", if *mt { "mt" } else { "st" }, v(*channels), v(*bps), v(*rate), v(*block), if *hint { "with length hint" } else { "no hint" }),
    }
}

/// Coarse signature: entry point + which argument is off + outcome kind.
fn spec17_sig(s: &Spec17, outcome: &str) -> String {
    let kind = outcome.split(':').take(2).collect::<Vec<_>>().join(":");
    let what = match s {
        Spec17::StreamEnc { mt, channels, bps, rate, block } => {
            let mut bad = vec![];
            if !(1..=8).contains(channels) {
                bad.push("channels");
            }
            if width_dom(*bps) != Dom::Valid {
                bad.push("bps");
            }
            if *rate > 96000 {
                bad.push("rate");
            }
            if !(32..=32767).contains(block) {
                bad.push("block");
            }
            format!("encode_stream[{}]|{}", if *mt { "mt" } else { "st" }, bad.join("+"))
        }
        Spec17::SourceBytes { mt, .. } => format!("source_bytes[{}]|bytes_per_sample", if *mt { "mt" } else { "st" }),
        Spec17::FrameNum { .. } => "encode_frame|frame_number".into(),
        Spec17::FrameBadSample { .. } => "encode_frame|sample".into(),
        Spec17::StreamInfoNew { rate, channels, bps } | Spec17::StreamNew { rate, channels, bps } => {
            let mut bad = vec![];
            if !(1..=8).contains(channels) {
                bad.push("channels");
            }
            if width_dom(*bps) != Dom::Valid {
                bad.push("bps");
            }
            if *rate > 96000 {
                bad.push("rate");
            }
            format!("{}|{}", if matches!(s, Spec17::StreamNew { .. }) { "Stream::new" } else { "StreamInfo::new" }, bad.join("+"))
        }
        Spec17::FrameBufNew { .. } => "FrameBuf::with_size".into(),
        Spec17::FillInt { target, .. } => format!("{}::fill_interleaved|too-long", ["FrameBuf", "Context", "Tuple"][*target as usize]),
        Spec17::FillBytes { target, bytes_per_sample, .. } => format!("{}::fill_le_bytes|{}", ["FrameBuf", "Context", "Tuple"][*target as usize], if *bytes_per_sample == 0 { "bps0" } else if *bytes_per_sample > 4 { "bps>4" } else { "mismatch-or-too-long" }),
        Spec17::FramePartialBad { .. } => "encode_frame|sample-in-partial-block".into(),
        Spec17::FrameMixedFills { .. } => "encode_frame|sample-after-mixed-fills".into(),
        Spec17::MemSourceEnc { mt, .. } => format!("encode_stream[{}]|MemSource", if *mt { "mt" } else { "st" }),
        Spec17::StreamBadSample { mt, all_bad, .. } => format!("encode_stream[{}]|{}", if *mt { "mt" } else { "st" }, if *all_bad { "all-samples" } else { "sample-in-last-block" }),
        Spec17::FillRagged { target, bytes, .. } => format!("{}::{}|ragged-length", ["FrameBuf", "Context", "Tuple"][*target as usize], if *bytes { "fill_le_bytes" } else { "fill_interleaved" }),
        Spec17::FillAfterResize { bytes, .. } => format!("FrameBuf::resize+{}|too-long", if *bytes { "fill_le_bytes" } else { "fill_interleaved" }),
        Spec17::FrameEmpty { .. } => "encode_frame|empty-buffer".into(),
        Spec17::FrameAfterResize { new_size, .. } => format!("FrameBuf::resize+encode_frame|{}", if *new_size == 0 { "size0" } else { "block-size" }),
        Spec17::ContextChannels { .. } => "Context::fill|channels".into(),
        Spec17::ContextWidth0 { .. } => "Context::fill|width0".into(),
        Spec17::FrameInfoDeser { channels, bps, rate } => format!("encode_frame|deserialised-StreamInfo|{}", if *channels == 0 || *channels > 8 { "channels" } else if !(8..=24).contains(bps) { "bps" } else if *rate > 96_000 { "rate" } else { "other" }),
        Spec17::BadSampleAt { stream, mt, cfgk, .. } => format!("{}|sample-at-position|{}", if *stream { if *mt { "encode_stream[mt]" } else { "encode_stream[st]" } } else { "encode_frame" }, ["default-config", "no-predictors", "verbatim-only", "fixed0-only"][*cfgk as usize]),
        Spec17::StreamEncShort { mt, len, .. } => format!("encode_stream[{}]|invalid-argument+{}", if *mt { "mt" } else { "st" }, if *len == 0 { "empty-source" } else { "tiny-source" }),
    };
    format!("C17|{what}|{kind}")
}

pub fn child17(idx: u64) -> Value {
    let g = grid17();
    let s = &g[idx as usize % g.len()];
    let outcome = exec17(s);
    json!({"outcome": outcome})
}

// ================================================================ C18

/// One constructor call with generated arguments; returns JSON with violations.
pub fn child18(seed: u64, idx: u64) -> Value {
    let mut rng = Rng::for_case(seed, "C18", idx);
    let which = idx % 10;
    // a third of the scenarios run right after failed writes on this thread: "serialises to exactly
    // the bits it reports and parses back" must not depend on what was written before
    if idx % 3 == 1 {
        crate::poison::failing_writes(&mut Rng::for_case(seed, "poison", idx));
    }
    let mut viol: Vec<(String, String)> = vec![];
    let mut accepted = false;
    let mut desc = String::new();
    // helper: run post-conditions on an accepted component
    macro_rules! post {
        ($name:expr, $c:expr, $parse:expr) => {{
            accepted = true;
            let c = $c;
            match catch(|| c.verify()) {
                Ok(Ok(())) => {}
                Ok(Err(e)) => viol.push((format!("C18|{}|accepted-but-does-not-verify", $name), format!("{e}"))),
                Err(p) => viol.push((format!("C18|{}|verify-panic|{}", $name, p.site()), p.short())),
            }
            let ctx = Ctx::new("C18", Tier::Quick, seed, Duration::from_secs(60));
            let mut o = Outcome::default();
            check_bits(&ctx, $name, &c, &mut o, &|| json!({}));
            for v in o.violations {
                viol.push((v.sig, v.detail));
            }
            // parse back
            if let Ok(bytes) = enc::to_bytes(&c) {
                let bits = c.count_bits();
                #[allow(clippy::redundant_closure_call)]
                let r = catch(|| $parse(&bytes, bits));
                match r {
                    Ok(Some((dbg2, bytes2))) => {
                        let dbg1 = format!("{:?}", c);
                        if dbg1 != dbg2 {
                            viol.push((format!("C18|{}|parse-back-differs", $name), format!("constructed {} parsed {}", dbg1.chars().take(160).collect::<String>(), dbg2.chars().take(160).collect::<String>())));
                        } else if bytes2 != bytes {
                            viol.push((format!("C18|{}|reserialisation-differs", $name), "parsed component serialises differently".to_string()));
                        }
                    }
                    Ok(None) => viol.push((format!("C18|{}|parser-rejects", $name), "the matching parser rejects the bits of an accepted component".to_string())),
                    Err(p) => viol.push((format!("C18|{}|parser-panic|{}", $name, p.site()), p.short())),
                }
            }
        }};
    }
    type BitErr<'a> = nom::error::Error<(&'a [u8], usize)>;
    type ByteErr<'a> = nom::error::Error<&'a [u8]>;
    let pad = |b: &[u8]| -> Vec<u8> {
        let mut v = b.to_vec();
        v.extend_from_slice(&[0u8; 8]);
        v
    };
    let odd = |rng: &mut Rng, nominal: usize, hi: usize| -> usize {
        match rng.usize_below(10) {
            0 => 0,
            1 => nominal + 1,
            2 => nominal.saturating_sub(1),
            3 => hi,
            4 => hi + 1,
            5 => *rng.pick(&[255usize, 256, 65535, 65536, 1 << 20, M]),
            _ => nominal,
        }
    };
    let r = catch(|| {
        match which {
            0 | 1 => {
                // Residual::new
                let order = if rng.chance(1, 5) { odd(&mut rng, 2, 15) } else { rng.usize_below(6) };
                let n = *rng.pick(&[0usize, 1, 16, 32, 64, 96, 100, 4096, 32767, 32768]);
                let n = if rng.chance(1, 6) { odd(&mut rng, n, 32767).min(1 << 16) } else { n };
                let warm = if rng.chance(1, 4) { odd(&mut rng, 2, n) .min(1 << 16)} else { rng.usize_below(5).min(n) };
                let parts = if order < 20 { 1usize << order } else { 1 };
                let plen_params = match rng.usize_below(6) {
                    0 => parts.saturating_sub(1),
                    1 => parts + 1,
                    2 => 0,
                    _ => parts,
                }
                .min(1 << 16);
                let params: Vec<u8> = (0..plen_params).map(|_| if rng.chance(1, 6) { *rng.pick(&[15u8, 16, 31, 32, 255]) } else { rng.usize_below(15) as u8 }).collect();
                // one call in sixteen claims a block size far beyond what the vectors hold
                // (wrap-around hunters: usize::MAX, 2^63, 2^32 +- 1, 2^31)
                let huge_n = rng.chance(1, 16);
                let n = if huge_n { *rng.pick(&[usize::MAX, usize::MAX - 1, 1usize << 63, (1usize << 32) + 1, 1usize << 32, (1usize << 32) - 1, 1usize << 31, (1usize << 24) + 3]) } else { n };
                let qlen = if huge_n {
                    rng.usize_below(5)
                } else {
                    match rng.usize_below(8) {
                        0 => n.saturating_sub(1),
                        1 => n + 1,
                        _ => n,
                    }
                };
                let rlen = if rng.chance(1, 8) { qlen + 1 } else { qlen };
                let plen = if parts > 0 && n >= parts { n / parts } else { 1 };
                let mut q: Vec<u32> = vec![0; qlen];
                let mut r: Vec<u32> = vec![0; rlen];
                let respect_warm = rng.chance(5, 6);
                for t in 0..qlen.min(rlen) {
                    if respect_warm && t < warm {
                        continue;
                    }
                    let p = params.get(t / plen.max(1)).copied().unwrap_or(0).min(31);
                    // mostly tiny; sometimes large; sometimes right at the word-size boundaries of a
                    // Rice code (quotient + 1 stop bit + p remainder bits = 32 / 64 bits, +-2)
                    q[t] = match rng.usize_below(40) {
                        0 => rng.usize_below(2000) as u32,
                        1 | 2 => (64i64 - i64::from(p) + rng.range(-2, 2)).max(0) as u32,
                        3 => (32i64 - i64::from(p) + rng.range(-2, 2)).max(0) as u32,
                        4 => *rng.pick(&[31u32, 32, 33, 63, 64, 65, 127, 128]),
                        _ => rng.usize_below(4) as u32,
                    };
                    r[t] = if rng.chance(1, 30) { 1u32.checked_shl(u32::from(p)).unwrap_or(0) } else { (rng.next_u64() as u32) & (1u32.checked_shl(u32::from(p)).unwrap_or(0).wrapping_sub(1)) };
                }
                desc = format!("Residual::new(order={order}, n={n}, warmup={warm}, params.len={}, q.len={qlen}, r.len={rlen}, warm_zero={respect_warm}, params[..4]={:?})", params.len(), &params[..params.len().min(4)]);
                if let Ok(c) = Residual::new(order, n, warm, &params, &q, &r) {
                    post!("Residual", c, |b: &[u8], _bits: usize| {
                        let pb = pad(b);
                        let mut p = flacenc::component::parser::residual::<BitErr<'_>>(n, warm);
                        p((&pb[..], 0)).ok().map(|(_, x)| (format!("{x:?}"), enc::to_bytes(&x).unwrap_or_default()))
                    });
                }
            }
            2 => {
                let order = if rng.chance(1, 3) { odd(&mut rng, 4, 24).min(1 << 12) } else { 1 + rng.usize_below(24) };
                let len = match rng.usize_below(5) {
                    0 => order.saturating_sub(1),
                    1 => order + 1,
                    2 => 0,
                    _ => order,
                }
                .min(1 << 12);
                let precision = if rng.chance(1, 3) { odd(&mut rng, 12, 15) } else { 1 + rng.usize_below(15) };
                let shift = *rng.pick(&[0i8, 1, 5, 14, 15, 16, 31, 32, -1, -16, -17, 127, -128]);
                // (values exactly on the two's-complement limits of the precision included:
                // -2^(p-1) is the smallest coefficient that fits, +2^(p-1) does not fit)
                let edge = 1i32 << (precision.clamp(1, 15) - 1);
                let coefs: Vec<i16> = (0..len)
                    .map(|_| match rng.usize_below(9) {
                        0 => i16::MAX,
                        1 => i16::MIN,
                        2 => 0,
                        3 => edge.min(i16::MAX as i32) as i16,
                        4 => (edge - 1) as i16,
                        5 => (-edge) as i16,
                        6 => (-edge - 1).max(i16::MIN as i32) as i16,
                        _ => rng.range(-2000, 2000) as i16,
                    })
                    .collect();
                desc = format!("QuantizedParameters::new(coefs.len={len}, order={order}, shift={shift}, precision={precision})");
                if let Ok(c) = QuantizedParameters::new(&coefs, order, shift, precision) {
                    accepted = true;
                    // no BitRepr on its own: wrap into an Lpc with a matching residual
                    let n = 64usize.max(order + 1);
                    let warm: Vec<i32> = vec![1; c.order()];
                    if let Ok(res) = Residual::new(0, n, c.order(), &[3], &vec![0; n], &vec![0; n]) {
                        if let Ok(l) = Lpc::new(&warm, c.clone(), res, 16) {
                            post!("Lpc(from QuantizedParameters)", l, |b: &[u8], _bits: usize| {
                                let pb = pad(b);
                                let mut p = flacenc::component::parser::lpc::<BitErr<'_>>(n, 16);
                                p((&pb[..], 0)).ok().map(|(_, x)| (format!("{x:?}"), enc::to_bytes(&x).unwrap_or_default()))
                            });
                        }
                    }
                }
            }
            3 => {
                let n = if rng.chance(1, 2) { odd(&mut rng, 192, 32767) } else { 1 + rng.usize_below(5000) };
                let bps = if rng.chance(1, 2) { odd(&mut rng, 16, 25) } else { *rng.pick(&[8usize, 9, 12, 13, 16, 17, 20, 21, 24, 25]) };
                let v = *rng.pick(&[0i32, -1, 127, 128, -128, -129, 32767, 32768, i32::MAX, i32::MIN, 1 << 23, -(1 << 24), (1 << 24) - 1, 1 << 24]);
                desc = format!("Constant::new(block={n}, dc={v}, bps={bps})");
                if let Ok(c) = Constant::new(n, v, bps) {
                    post!("Constant", c, |b: &[u8], _bits: usize| {
                        let pb = pad(b);
                        let mut p = flacenc::component::parser::constant::<BitErr<'_>>(n, bps);
                        p((&pb[..], 0)).ok().map(|(_, x)| (format!("{x:?}"), enc::to_bytes(&x).unwrap_or_default()))
                    });
                }
            }
            4 => {
                let n = *rng.pick(&[0usize, 1, 2, 64, 100, 4096, 32767, 32768, 40000]);
                let bps = if rng.chance(1, 2) { odd(&mut rng, 16, 25) } else { *rng.pick(&[8usize, 9, 12, 13, 16, 17, 20, 21, 24, 25]) };
                let lim = 1i64 << (bps.clamp(1, 31) - 1);
                // out-of-range samples only in a third of the calls (decided per call, so that long
                // all-valid vectors exist)
                let with_bad = rng.chance(1, 3);
                let mut samples: Vec<i32> = (0..n).map(|_| if with_bad && rng.chance(1, 200) { *rng.pick(&[lim as i32, (-lim - 1) as i32, i32::MAX, i32::MIN]) } else { rng.range(-lim, lim - 1) as i32 }).collect();
                let mut n = n;
                // one call in four: a short vector over the exact limits of the width and their
                // neighbours (2^(b-1)-1, 2^(b-1), -2^(b-1), -2^(b-1)-1) in every order - the first
                // value outside the range sits next to the valid extreme of the other sign
                let limits = rng.chance(1, 4);
                if limits {
                    n = 2 + rng.usize_below(7);
                    let pool = [0i64, 1, -1, lim - 1, lim, -lim, -lim - 1, lim - 1, -lim];
                    samples = (0..n).map(|_| *rng.pick(&pool) as i32).collect();
                }
                desc = format!("Verbatim::new(samples.len={n}, bps={bps}, out-of-range samples: {with_bad}{})", if limits { format!(", limits of the width: {samples:?}") } else { String::new() });
                if let Ok(c) = Verbatim::new(&samples, bps) {
                    post!("Verbatim", c, |b: &[u8], _bits: usize| {
                        let pb = pad(b);
                        let mut p = flacenc::component::parser::verbatim::<BitErr<'_>>(n, bps);
                        p((&pb[..], 0)).ok().map(|(_, x)| (format!("{x:?}"), enc::to_bytes(&x).unwrap_or_default()))
                    });
                }
            }
            5 | 6 => {
                // FixedLpc::new / Lpc::new with (in)consistent residuals
                let n = *rng.pick(&[16usize, 64, 64, 192, 4096]);
                let wl = match rng.usize_below(6) {
                    0 => 5,
                    1 => 25,
                    2 => 33,
                    _ => rng.usize_below(5),
                };
                let res_warm = if rng.chance(2, 3) { wl } else { rng.usize_below(6) };
                let bps = *rng.pick(&[8usize, 12, 16, 17, 24, 25, 7, 26, 32]);
                let lim = 1i64 << (bps.clamp(1, 31) - 1);
                let mut warm: Vec<i32> = (0..wl).map(|_| if rng.chance(1, 10) { lim as i32 } else { rng.range(-lim, lim - 1) as i32 }).collect();
                // one call in four: warm-up values over the exact limits of the width and their
                // neighbours, in every order (cf. the Verbatim grid)
                if rng.chance(1, 4) {
                    let pool = [0i64, lim - 1, lim, -lim, -lim - 1, lim - 1, -lim];
                    for w in warm.iter_mut() {
                        *w = *rng.pick(&pool) as i32;
                    }
                }
                let order = rng.usize_below(3);
                // one case in four: the residual argument is not built with `Residual::new` but is
                // what the crate's own parser hands out for a legal foreign residual coded with
                // method 01 (5-bit Rice parameters, some of them above 14). Such a part has never
                // been verified; a constructor that takes it must still either refuse or return a
                // component that verifies.
                let parsed_part = rng.chance(1, 4);
                let res = if parsed_part {
                    foreign_residual(&mut rng, n, res_warm.min(n).min(n >> order), order).ok_or(())
                } else {
                    Residual::new(order, n, res_warm.min(n), &vec![2u8; 1 << order], &vec![0; n], &vec![0; n]).map_err(|_| ())
                };
                let Ok(res) = res else {
                    desc = "residual refused".to_string();
                    return;
                };
                let res_warm = if parsed_part { res_warm.min(n).min(n >> order) } else { res_warm };
                let n_tag = if parsed_part { "parsed 5-bit-parameter residual, " } else { "" };
                if which == 5 {
                    desc = format!("FixedLpc::new(warm_up.len={wl}, {n_tag}residual(n={n}, warmup={res_warm}, order={order}), bps={bps})");
                    if let Ok(c) = FixedLpc::new(&warm, res, bps) {
                        post!("FixedLpc", c, |b: &[u8], _bits: usize| {
                            let pb = pad(b);
                            let mut p = flacenc::component::parser::fixed_lpc::<BitErr<'_>>(n, bps);
                            p((&pb[..], 0)).ok().map(|(_, x)| (format!("{x:?}"), enc::to_bytes(&x).unwrap_or_default()))
                        });
                    }
                } else {
                    let qorder = if rng.chance(2, 3) { wl.clamp(0, 32) } else { 1 + rng.usize_below(24) };
                    let precision = *rng.pick(&[0usize, 1, 5, 12, 15]);
                    let mut coefs: Vec<i16> = (0..qorder).map(|_| rng.range(-(1 << 11), (1 << 11) - 1) as i16).collect();
                    // zero taps (last ones / first ones / all): legal, and what another encoder's
                    // stream may hold although this library's quantiser trims them
                    if qorder > 0 && rng.chance(1, 3) {
                        let k = 1 + rng.usize_below(qorder);
                        match rng.usize_below(3) {
                            0 => coefs[qorder - k..].fill(0),
                            1 => coefs[..k].fill(0),
                            _ => coefs.fill(0),
                        }
                    }
                    let Ok(qp) = QuantizedParameters::new(&coefs, qorder, *rng.pick(&[0i8, 3, 10, 15]), precision) else {
                        desc = "parameters refused".to_string();
                        return;
                    };
                    desc = format!("Lpc::new(warm_up.len={wl}, params(order={qorder}, precision={precision}), {n_tag}residual(n={n}, warmup={res_warm}, order={order}), bps={bps})");
                    if let Ok(c) = Lpc::new(&warm, qp, res, bps) {
                        post!("Lpc", c, |b: &[u8], _bits: usize| {
                            let pb = pad(b);
                            let mut p = flacenc::component::parser::lpc::<BitErr<'_>>(n, bps);
                            p((&pb[..], 0)).ok().map(|(_, x)| (format!("{x:?}"), enc::to_bytes(&x).unwrap_or_default()))
                        });
                    }
                }
            }
            7 => {
                let bs = if rng.chance(1, 2) { odd(&mut rng, 192, 32767) } else { 1 + rng.usize_below(32767) };
                let bps = if rng.chance(1, 3) { odd(&mut rng, 16, 24) } else { *rng.pick(&[8usize, 12, 16, 20, 24, 32, 9, 17]) };
                // (every class of the header's rate field: table entries, whole kHz outside the
                // table, tens of Hz, plain Hz, values with no code at all)
                let rate = if rng.chance(1, 3) { odd(&mut rng, 44100, 96000) } else { *rng.pick(&[0usize, 1, 44100, 96000, 96001, 655_350, 655_351, 1_000_000, (1 << 32) + 44100, 1000, 11_000, 12_000, 64_000, 255_000, 256_000, 37_800, 18_900, 95_990, 65_535, 65_536, 65_537, 8000, 22_050, 88_200, 176_400, 192_000]) };
                let ch = match rng.usize_below(6) {
                    0 => ChannelAssignment::Independent(0),
                    1 => ChannelAssignment::Independent(9),
                    2 => ChannelAssignment::Independent(255),
                    3 => ChannelAssignment::MidSide,
                    _ => ChannelAssignment::Independent(1 + rng.usize_below(8) as u8),
                };
                let off = match rng.usize_below(5) {
                    0 => FrameOffset::Frame(u32::MAX),
                    1 => FrameOffset::Frame(1 << 31),
                    2 => FrameOffset::StartSample(1 << 36),
                    3 => FrameOffset::StartSample(u64::MAX),
                    // valid offsets of every coded length: random bit length, or a length-class
                    // boundary (2^7, 2^11, 2^16, 2^21, 2^26, 2^31; 2^36 for start samples) +- 2
                    _ => {
                        let start_sample = rng.chance(1, 3);
                        let maxbits = if start_sample { 36 } else { 31 };
                        let v: u64 = if rng.flip() {
                            rng.next_u64() >> (64 - 1 - rng.usize_below(maxbits))
                        } else {
                            let k = *rng.pick(&[7u32, 11, 16, 20, 21, 26, 31, 32, 36]);
                            ((1u64 << k) as i64 + rng.range(-2, 2)).max(0) as u64
                        };
                        let v = v.min((1u64 << maxbits) - 1);
                        if start_sample { FrameOffset::StartSample(v) } else { FrameOffset::Frame(v as u32) }
                    }
                };
                desc = format!("FrameHeader::new(block={bs}, {ch:?}, bps={bps}, rate={rate}, {off:?})");
                if let Ok(c) = FrameHeader::new(bs, ch, bps, rate, off) {
                    post!("FrameHeader", c, |b: &[u8], _bits: usize| {
                        let mut p = flacenc::component::parser::frame_header::<ByteErr<'_>>(true);
                        p(b).ok().map(|(_, x)| (format!("{x:?}"), enc::to_bytes(&x).unwrap_or_default()))
                    });
                }
            }
            8 if rng.chance(1, 2) => {
                // Frame::new with every channel assignment and mixed subframe kinds at the widths
                // the assignment implies (side channels: +1): subframes that do not end on a byte
                // boundary are followed by others inside one frame
                let bps = *rng.pick(&[8usize, 16, 24, 12, 20]);
                let n = *rng.pick(&[16usize, 33, 64, 192]);
                let assign = match rng.usize_below(5) {
                    0 => ChannelAssignment::LeftSide,
                    1 => ChannelAssignment::RightSide,
                    2 => ChannelAssignment::MidSide,
                    _ => ChannelAssignment::Independent(1 + rng.usize_below(4) as u8),
                };
                let nch = match &assign {
                    ChannelAssignment::Independent(c) => *c as usize,
                    _ => 2,
                };
                let mut subs: Vec<SubFrame> = vec![];
                let mut kinds = String::new();
                for ch in 0..nch {
                    let w = bps + assign.bits_per_sample_offset(ch);
                    let lim = 1i64 << (w - 1);
                    // kind 3 (one in seven): a subframe that comes from the crate's parser (foreign
                    // residual with 5-bit Rice parameters), i.e. a part nobody has verified
                    let kind = if rng.chance(1, 7) { 3 } else { rng.usize_below(3) };
                    kinds.push_str(["C", "V", "F", "P"][kind]);
                    let sf: Option<SubFrame> = match kind {
                        3 => foreign_fixed_subframe(&mut rng, n, w),
                        0 => Constant::new(n, rng.range(-lim, lim - 1) as i32, w).ok().map(Into::into),
                        1 => Verbatim::new(&(0..n).map(|_| rng.range(-lim, lim - 1) as i32).collect::<Vec<_>>(), w).ok().map(Into::into),
                        _ => {
                            let order = 1 + rng.usize_below(4);
                            let warm: Vec<i32> = (0..order).map(|_| rng.range(-lim, lim - 1) as i32).collect();
                            let p = rng.usize_below(6) as u8;
                            let mut q = vec![0u32; n];
                            let mut r = vec![0u32; n];
                            for t in order..n {
                                q[t] = rng.usize_below(3) as u32;
                                r[t] = (rng.next_u64() as u32) & ((1u32 << p) - 1);
                            }
                            Residual::new(0, n, order, &[p], &q, &r).ok().and_then(|res| FixedLpc::new(&warm, res, w).ok()).map(Into::into)
                        }
                    };
                    if let Some(sf) = sf {
                        subs.push(sf);
                    }
                }
                desc = format!("Frame::new(header(block={n}, {assign:?}, bps={bps}), subframes {kinds})");
                let Ok(h) = FrameHeader::new(n, assign, bps, 44100, FrameOffset::Frame(rng.usize_below(300) as u32)) else { return };
                if let Ok(c) = Frame::new(h, subs.into_iter()) {
                    let si = StreamInfo::new(44100, nch, bps).unwrap();
                    post!("Frame", c, |b: &[u8], _bits: usize| {
                        let mut p = flacenc::component::parser::frame::<ByteErr<'_>>(&si, true);
                        // the parser object has seen a prefix of the frame before (a streaming
                        // reader retries the same object once more input has arrived)
                        let _ = p(&b[..b.len() / 2]);
                        let _ = p(&b[..b.len().saturating_sub(1)]);
                        p(b).ok().map(|(_, x)| (format!("{x:?}"), enc::to_bytes(&x).unwrap_or_default()))
                    });
                }
            }
            8 => {
                // Frame::new: header vs subframes (count, block size, width)
                let hch = 1 + rng.usize_below(4);
                let nsub = if rng.chance(2, 3) { hch } else { rng.usize_below(10) };
                let hb = *rng.pick(&[64usize, 192, 4096]);
                let sb = if rng.chance(2, 3) { hb } else { *rng.pick(&[1usize, 64, 100, 4096]) };
                let hbps = *rng.pick(&[8usize, 16, 24]);
                let sbps = if rng.chance(2, 3) { hbps } else { *rng.pick(&[8usize, 12, 16, 24]) };
                desc = format!("Frame::new(header(block={hb}, ch={hch}, bps={hbps}), {nsub} x Constant(block={sb}, bps={sbps}))");
                let Ok(h) = FrameHeader::new(hb, ChannelAssignment::Independent(hch as u8), hbps, 44100, FrameOffset::Frame(3)) else { return };
                // half of the cases: only ONE subframe (at a random channel) disagrees with the
                // header, the others match it
                let odd_at = if rng.flip() { Some(rng.usize_below(nsub.max(1))) } else { None };
                if let Some(o) = odd_at {
                    desc = format!("{desc} [only subframe {o} differs]");
                }
                let subs: Vec<SubFrame> = (0..nsub)
                    .filter_map(|i| {
                        let (b, w) = if odd_at.is_none() || odd_at == Some(i) { (sb, sbps) } else { (hb, hbps) };
                        Constant::new(b, 1, w).ok().map(Into::into)
                    })
                    .collect();
                if let Ok(c) = Frame::new(h, subs.into_iter()) {
                    let si = StreamInfo::new(44100, hch, hbps).unwrap();
                    post!("Frame", c, |b: &[u8], _bits: usize| {
                        let mut p = flacenc::component::parser::frame::<ByteErr<'_>>(&si, true);
                        // the parser object has seen a prefix of the frame before (a streaming
                        // reader retries the same object once more input has arrived)
                        let _ = p(&b[..b.len() / 2]);
                        let _ = p(&b[..b.len().saturating_sub(1)]);
                        p(b).ok().map(|(_, x)| (format!("{x:?}"), enc::to_bytes(&x).unwrap_or_default()))
                    });
                }
            }
            _ => {
                // StreamInfo::new + setters, MetadataBlockData::new_unknown
                let rate = *rng.pick(&[0usize, 1, 44100, 96000, 96001, 1 << 20, (1 << 32) + 8000]);
                let ch = *rng.pick(&[0usize, 1, 2, 8, 9, 256 + 2]);
                let bps = *rng.pick(&[0usize, 4, 7, 8, 9, 16, 24, 25, 32, 33, 256 + 16]);
                desc = format!("StreamInfo::new(rate={rate}, ch={ch}, bps={bps}) / MetadataBlockData::new_unknown");
                if let Ok(c) = StreamInfo::new(rate, ch, bps) {
                    if c.sample_rate() != rate || c.channels() != ch || c.bits_per_sample() != bps {
                        viol.push(("C18|StreamInfo|silently-truncated".into(), format!("holds rate={} ch={} bps={}", c.sample_rate(), c.channels(), c.bits_per_sample())));
                    }
                    // setters: whatever they accept must still verify, serialise and parse back
                    // (fields: 16-bit block sizes, 24-bit frame sizes, 36-bit total)
                    let mut c = c;
                    let with_setters = idx % 3 != 0;
                    let mut all_ok = true;
                    if with_setters {
                        let bs = [16usize, 32, 4096, 32767, 32768, 65535, 65536, 0, 15];
                        let (bmin, bmax) = (*rng.pick(&bs), *rng.pick(&bs));
                        let fs = [0usize, 1, 1000, (1 << 24) - 1, 1 << 24, (1 << 24) + 5, u32::MAX as usize, (1usize << 32) + 7];
                        let (fmin, fmax) = (*rng.pick(&fs), *rng.pick(&fs));
                        let total = *rng.pick(&[0usize, 1, 4096, (1 << 32) - 1, 1 << 32, (1 << 36) - 1, 1 << 36, (1 << 36) + 12345, usize::MAX]);
                        desc = format!("{desc} + set_block_sizes({bmin},{bmax}) + set_frame_sizes({fmin},{fmax}) + set_total_samples({total})");
                        all_ok &= c.set_block_sizes(bmin, bmax).is_ok();
                        all_ok &= c.set_frame_sizes(fmin, fmax).is_ok();
                        c.set_total_samples(total);
                        let mut d = [0u8; 16];
                        for b in d.iter_mut() {
                            *b = rng.next_u64() as u8;
                        }
                        c.set_md5_digest(&d);
                    }
                    // a setter that returns nothing cannot refuse: a value it took may make verify()
                    // fail, and that is a correct outcome; only what verifies is followed further
                    if with_setters && all_ok && !matches!(catch(|| c.verify()), Ok(Ok(())) | Err(_)) {
                        all_ok = false;
                    }
                    if all_ok {
                        post!("StreamInfo", c, |b: &[u8], _bits: usize| {
                            flacenc::component::parser::stream_info::<ByteErr<'_>>(b).ok().map(|(_, x)| (format!("{x:?}"), enc::to_bytes(&x).unwrap_or_default()))
                        });
                    }
                }
                let tag = *rng.pick(&[0u8, 1, 126, 127, 128, 255]);
                let len = *rng.pick(&[0usize, 1, 100, (1 << 24) - 1, 1 << 24]);
                if len < (1 << 20) || idx % 50 == 9 {
                    if let Ok(md) = MetadataBlockData::new_unknown(tag, &vec![7u8; len]) {
                        let ctx = Ctx::new("C18", Tier::Quick, seed, Duration::from_secs(60));
                        let mut o = Outcome::default();
                        check_bits(&ctx, "MetadataBlockData", &md, &mut o, &|| json!({}));
                        for v in o.violations {
                            viol.push((v.sig, v.detail));
                        }
                        // inside a stream: the 24-bit length field must be able to hold it
                        let mut st = Stream::new(44100, 1, 16).unwrap();
                        // valid bounds instead of the documented sentinels (known finding C18|StreamInfo|parser-rejects)
                        let _ = st.stream_info_mut().set_block_sizes(64, 64);
                        let _ = st.stream_info_mut().set_frame_sizes(0, 0);
                        st.add_metadata_block(md);
                        if let Ok(bytes) = enc::to_bytes(&st) {
                            let rep = refdec::decode_stream(&bytes);
                            if rep.fatal().is_some() || rep.meta.len() != 1 || rep.meta[0].len != len || rep.meta[0].typ != tag {
                                viol.push(("C18|MetadataBlockData|stream-with-block-malformed".into(), format!("tag={tag} len={len}: refdec sees {:?} / {:?}", rep.meta, rep.fatal().map(|i| i.clause))));
                            } else if let Some(i) = rep.issues.iter().find(|i| i.clause.starts_with("metadata.")) {
                                viol.push(("C18|MetadataBlockData|stream-with-block-malformed".into(), format!("tag={tag} len={len}: {} ({})", i.detail, i.clause)));
                            }
                            // and the block must come back from the crate's own parser as what it was
                            if len < (1 << 20) {
                                match flacenc::component::parser::stream::<ByteErr<'_>>(&bytes) {
                                    Ok((rest, parsed)) => {
                                        if !rest.is_empty() || enc::to_bytes(&parsed).ok().as_deref() != Some(&bytes[..]) {
                                            viol.push(("C18|MetadataBlockData|parse-back-differs".into(), format!("tag={tag} len={len}: the stream holding the block re-serialises differently after parsing ({} bytes left)", rest.len())));
                                        }
                                    }
                                    Err(_) => viol.push(("C18|MetadataBlockData|parser-rejects".into(), format!("tag={tag} len={len}: parser::stream rejects the stream holding the block"))),
                                }
                            }
                        }
                    }
                }
            }
        }
    });
    let mut d2 = String::new();
    if let Err(p) = &r {
        d2 = format!("panic: {}", p.short());
        let ctor = ["Residual::new", "Residual::new", "QuantizedParameters::new", "Constant::new", "Verbatim::new", "FixedLpc::new", "Lpc::new", "FrameHeader::new", "Frame::new", "StreamInfo/Metadata"][which as usize];
        viol.push((format!("C18|{ctor}|panic|{}", p.site()), p.short()));
    }
    let _ = d2;
    let viol: Vec<(String, String)> = viol.into_iter().map(|(s, d)| (s, format!("{desc}: {d}"))).collect();
    json!({"violations": viol, "accepted": accepted, "which": which, "desc": desc})
}

/// A legal residual of `n` samples (partition order `order`, `warmup` warm-up samples) written by
/// the harness's own bit writer with coding method 01 (5-bit Rice parameters, a third of them in
/// 15..=30) and read by the crate's parser: the only public way to a `Residual` that has not been
/// through `Residual::new`.
fn foreign_residual(rng: &mut Rng, n: usize, warmup: usize, order: usize) -> Option<Residual> {
    type BitErr<'a> = nom::error::Error<(&'a [u8], usize)>;
    let mut m = crate::bitmodel::BitVec::new();
    if !foreign_residual_bits(rng, &mut m, n, warmup, order) {
        return None;
    }
    let mut bytes = m.bytes.clone();
    bytes.extend_from_slice(&[0u8; 8]);
    let mut p = flacenc::component::parser::residual::<BitErr<'_>>(n, warmup);
    p((&bytes[..], 0)).ok().map(|(_, x)| x)
}

fn foreign_residual_bits(rng: &mut Rng, m: &mut crate::bitmodel::BitVec, n: usize, warmup: usize, order: usize) -> bool {
    let parts = 1usize << order;
    if n % parts != 0 || (n >> order) < warmup || n == 0 {
        return false;
    }
    let plen = n >> order;
    m.push_lsbs(1, 2);
    m.push_lsbs(order as u64, 4);
    for part in 0..parts {
        let p = if rng.chance(1, 3) { 15 + rng.usize_below(16) } else { rng.usize_below(15) };
        m.push_lsbs(p as u64, 5);
        for _ in (part * plen).max(warmup)..(part + 1) * plen {
            m.push_zeros(rng.usize_below(3));
            m.push_lsbs(1, 1);
            if p > 0 {
                m.push_lsbs(rng.next_u64() & ((1u64 << p) - 1), p);
            }
        }
    }
    true
}

/// A fixed-predictor subframe (order 0..=4, width `w`) around such a foreign residual, as the
/// crate's `parser::subframe` reads it: a `SubFrame` no constructor has seen.
fn foreign_fixed_subframe(rng: &mut Rng, n: usize, w: usize) -> Option<SubFrame> {
    type BitErr<'a> = nom::error::Error<(&'a [u8], usize)>;
    let order = rng.usize_below(5).min(n);
    let mut m = crate::bitmodel::BitVec::new();
    m.push_lsbs(0, 1);
    m.push_lsbs(0b001000 | order as u64, 6);
    m.push_lsbs(0, 1);
    let lim = 1i64 << (w - 1);
    for _ in 0..order {
        let v = rng.range(-lim, lim - 1);
        m.push_lsbs((v as u64) & ((1u64 << w) - 1), w);
    }
    let po = if n % 4 == 0 && n / 4 >= order { rng.usize_below(3) } else { 0 };
    if !foreign_residual_bits(rng, &mut m, n, order, po) {
        return None;
    }
    let mut bytes = m.bytes.clone();
    bytes.extend_from_slice(&[0u8; 8]);
    let mut p = flacenc::component::parser::subframe::<BitErr<'_>>(n, w);
    p((&bytes[..], 0)).ok().map(|(_, x)| x)
}

// ================================================================ parent side

fn supervise_grid(ctx: &Ctx, sub: &str, n: u64, out: &Arc<Mutex<Outcome>>, on_result: &(dyn Fn(u64, &Value, &mut Outcome) + Sync), describe: &(dyn Fn(u64) -> String + Sync)) {
    let (first, step, end, procs) = match &ctx.only {
        Some((s, i)) => {
            if s != sub {
                return;
            }
            (*i, 1u64, *i + 1, 1u64)
        }
        None => (0u64, ctx.threads as u64, n, ctx.threads as u64),
    };
    let base: Vec<String> = vec!["child".into(), ctx.prop.clone(), ctx.tier.name().into(), ctx.seed.to_string(), sub.to_string()];
    std::thread::scope(|s| {
        for p in 0..procs.min(end - first) {
            let base = base.clone();
            let out = Arc::clone(out);
            s.spawn(move || {
                supervise::run_batch(&base, &[], first + p, step, end, Duration::from_secs(120), |idx, endk| {
                    let mut g = out.lock().unwrap();
                    g.evaluations += 1;
                    let rp = json!({"monitor": ctx.prop, "sub": sub, "index": idx, "seed": ctx.seed, "tier": ctx.tier.name(), "case": describe(idx)});
                    match endk {
                        ScenarioEnd::Result(j) => {
                            let v: Value = serde_json::from_str(&j).unwrap_or(json!({"harness_error": "unparsable"}));
                            if let Some(e) = v.get("harness_error") {
                                g.inconclusive.push(format!("harness error in child scenario {sub}#{idx}: {e}"));
                                return;
                            }
                            on_result(idx, &v, &mut g);
                        }
                        ScenarioEnd::Deadlock { detail, .. } => g.violation(format!("{}|hang|{}", ctx.prop, describe(idx).split('(').next().unwrap_or("?")), format!("{}: call did not return: {detail}", describe(idx)), rp),
                        ScenarioEnd::Died(d) => g.violation(format!("{}|process-died|{}", ctx.prop, describe(idx).split('(').next().unwrap_or("?")), format!("{}: {d}", describe(idx)), rp),
                        ScenarioEnd::Watchdog => g.inconclusive.push(format!("watchdog fired in {sub}#{idx}")),
                        ScenarioEnd::HarnessError(d) => g.inconclusive.push(format!("harness error in {sub}#{idx}: {d}")),
                    }
                });
            });
        }
    });
}

pub fn run_c17(ctx: &Ctx) -> i32 {
    let out = Arc::new(Mutex::new(Outcome::default()));
    let grid = Arc::new(grid17());
    let g2 = Arc::clone(&grid);
    let g3 = Arc::clone(&grid);
    let prop = ctx.prop.clone();
    let seed = ctx.seed;
    let tier = ctx.tier;
    supervise_grid(
        ctx,
        "grid",
        grid.len() as u64,
        &out,
        &move |idx, v, o| {
            let s = &g2[idx as usize];
            let outcome = v["outcome"].as_str().unwrap_or("?");
            let dom = domain17(s);
            o.distinct.insert(prng::hash_str(&spec17_class(s)));
            o.count(&format!("domain_{dom:?}"));
            o.count(&format!("outcome_{}", outcome.split(':').next().unwrap_or("?")));
            let rp = json!({"monitor": prop, "sub": "grid", "index": idx, "seed": seed, "tier": tier.name(), "case": spec17_class(s)});
            let bad = match dom {
                Dom::Invalid => !outcome.starts_with("Err"),
                Dom::Tolerated => !(outcome == "Err" || outcome == "Ok-lossless" || outcome == "Ok"),
                Dom::Valid => outcome.starts_with("Panic") || outcome.starts_with("Ok-WRONG"),
                Dom::Unlisted => {
                    o.set_insert("unlisted_argument_outcomes", format!("{} -> {}", spec17_sig(s, outcome), outcome.chars().take(60).collect::<String>()));
                    false
                }
            };
            if bad {
                let mut sig = spec17_sig(s, outcome);
                if dom == Dom::Valid {
                    sig = format!("{sig}|valid-input");
                }
                o.violation(sig, format!("{} -> {} (domain: {dom:?})", spec17_class(s), outcome), rp);
            }
            if idx % 97 == 0 {
                o.sample(json!({"call": spec17_class(s), "domain": format!("{dom:?}"), "outcome": outcome}));
            }
        },
        &move |idx| spec17_class(&g3[idx as usize]),
    );
    let out = std::mem::take(&mut *out.lock().unwrap());
    let fin = Finish {
        level: "exploration",
        rule: "the argument grid of the property, enumerated: every argument of encode_with_fixed_block_size (through a Source reporting the value; both thread modes), encode_fixed_size_frame, StreamInfo::new, Stream::new, FrameBuf::with_size, fill_interleaved / fill_le_bytes on FrameBuf, Context and the (FrameBuf, Context) tuple, taken from {0, min-1, min, max, max+1, 2^8+k, 2^16+k, 2^32+k, usize::MAX} with the others valid; each call runs in a supervised child; outside the supported domain the result must be Err (never Ok, panic, hang or abort); in-between widths 9..23 the code tolerates may error or encode losslessly at that width; fills after a (valid) FrameBuf::resize follow the same capacity rule; ragged slices (not a whole number of samples) are not in the property's list: their outcomes are recorded under observed_sets.unlisted_argument_outcomes, not judged; distinct = distinct calls",
        assumptions: vec!["supported domain as documented: channels 1..=8, block size 32..=32767, rate <= 96000, widths {8,12,16,20,24}, frame number < 2^31, fill length <= capacity, bytes-per-sample = ceil(width/8) where a width is declared (Context), 1..=4 otherwise".into()],
        exhaustive: Some(ctx.only.is_none()),
        floors: vec![],
        extra: json!({"grid_size": grid.len()}),
    };
    finish(ctx, out, fin)
}

pub fn run_c18(ctx: &Ctx) -> i32 {
    let out = Arc::new(Mutex::new(Outcome::default()));
    let n = ctx.tier.pick(80_000, 6_000_000);
    let prop = ctx.prop.clone();
    let seed = ctx.seed;
    let tier = ctx.tier;
    supervise_grid(
        ctx,
        "ctor",
        n,
        &out,
        &move |idx, v, o| {
            o.distinct.insert(idx);
            let names = ["Residual", "Residual", "QuantizedParameters", "Constant", "Verbatim", "FixedLpc", "Lpc", "FrameHeader", "Frame", "StreamInfo+Metadata"];
            let w = v["which"].as_u64().unwrap_or(0) as usize;
            o.count(&format!("calls_{}", names[w.min(9)]));
            if v["accepted"].as_bool() == Some(true) {
                o.count(&format!("accepted_{}", names[w.min(9)]));
            }
            for viol in v["violations"].as_array().cloned().unwrap_or_default() {
                let sig = viol[0].as_str().unwrap_or("?").to_string();
                let det = viol[1].as_str().unwrap_or("?").to_string();
                o.violation(sig, det, json!({"monitor": prop, "sub": "ctor", "index": idx, "seed": seed, "tier": tier.name(), "case": names[w.min(9)]}));
            }
            if idx < 3 {
                o.sample(json!({"index": idx, "constructor": names[w.min(9)], "accepted": v["accepted"]}));
            }
        },
        &|idx| format!("constructor-case(#{idx})"),
    );
    let mut out = std::mem::take(&mut *out.lock().unwrap());
    // every block size 0..=32769 (and 65535, 65536) through FrameHeader::new, in-process: an
    // accepted header must write count_bits() bits and parse back to the same block size / bytes
    crate::common::run_cases(ctx, "header_blocksizes", 32_772, &mut out, |idx, out| {
        use flacenc::component::BitRepr;
        let bs = match idx {
            32_770 => 65_535,
            32_771 => 65_536,
            i => i as usize,
        };
        let r = catch(|| FrameHeader::new(bs, ChannelAssignment::Independent(2), 16, 44100, FrameOffset::Frame((idx % 200) as u32)));
        out.evaluations += 1;
        let rp = || json!({"monitor": "C18", "sub": "header_blocksizes", "index": idx, "seed": ctx.seed, "tier": ctx.tier.name(), "case": {"block_size": bs}});
        match r {
            Ok(Ok(h)) => {
                out.count("accepted_FrameHeader_blocksize_sweep");
                check_bits(ctx, "FrameHeader", &h, out, &rp);
                if let Ok(bytes) = enc::to_bytes(&h) {
                    type ByteErr<'a> = nom::error::Error<&'a [u8]>;
                    let parsed = catch(|| {
                        let mut p = flacenc::component::parser::frame_header::<ByteErr<'_>>(true);
                        p(&bytes[..]).ok().map(|(rest, x)| (rest.len(), x.block_size(), enc::to_bytes(&x).unwrap_or_default()))
                    });
                    match parsed {
                        Ok(Some((rest, pbs, b2))) => {
                            if rest != 0 || pbs != bs || b2 != bytes {
                                out.violation("C18|FrameHeader|parse-back-differs", format!("FrameHeader::new(block size {bs}) parses back as block size {pbs} ({rest} bytes unconsumed, {} vs {} bytes)", b2.len(), bytes.len()), rp());
                            }
                        }
                        Ok(None) => out.violation("C18|FrameHeader|parser-rejects", format!("the header of block size {bs} does not parse back ({} bytes, count_bits {})", bytes.len(), h.count_bits()), rp()),
                        Err(p) => out.violation(format!("C18|FrameHeader|parser-panic|{}", p.site()), p.short(), rp()),
                    }
                }
            }
            Ok(Err(_)) => out.count("refused_FrameHeader_blocksize_sweep"),
            Err(p) => out.violation(format!("C18|FrameHeader::new|panic|{}", p.site()), p.short(), rp()),
        }
    });
    let fin = Finish {
        level: "exploration",
        rule: "random + boundary arguments (consistent, off-by-one, inconsistent lengths, orders above the block size, parameters above 14, precision/order 0, coefficients wider than the precision, block size 0/65535/2^20, warm-up longer than the block) for Residual::new, QuantizedParameters::new, Constant::new, Verbatim::new, FixedLpc::new, Lpc::new, FrameHeader::new, Frame::new, StreamInfo::new + setters, MetadataBlockData::new_unknown; a call may return Err; if it returns Ok the component must verify, write without panicking exactly count_bits() bits into MemSink<u8>/MemSink<u64>/a user sink, and the matching component::parser function must parse those bits back into a component with identical Debug rendering and serialisation; every call runs in a supervised child; plus FrameHeader::new for EVERY block size 0..=32769, 65535, 65536 (in-process); distinct = distinct case indices",
        assumptions: vec![],
        exhaustive: None,
        floors: vec![],
        extra: json!({}),
    };
    finish(ctx, out, fin)
}
