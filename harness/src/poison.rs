//! "Poisoning": writes that FAIL on the current thread. A correct library forgets a failed write;
//! one that keeps per-thread scratch state (CRC buffers, caches) across an early return does not.
//! Monitors call `failing_writes` between their cases so that every later encode / serialise /
//! parse on the same thread is also an observation "after a failed write" (C10: results do not
//! depend on what the thread did before; C08/C12/C15/C18: the same post-conditions must hold).
//! Nothing here is an oracle: results and panics of the failing writes are ignored (C12 judges
//! those); the effect is observed by whichever monitor runs next on the thread.

use crate::bitmodel::UserSink;
use crate::common::catch;
use crate::prng::Rng;
use flacenc::bitsink::ByteSink;
use flacenc::component::{BitRepr, ChannelAssignment, Constant, Frame, FrameHeader, FrameOffset, Stream, SubFrame, Verbatim};
use flacenc::config;
use flacenc::error::Verify;
use flacenc::source::MemSource;
use std::cell::RefCell;
use std::rc::Rc;
use std::sync::atomic::{AtomicU64, Ordering};

pub static POISONINGS: AtomicU64 = AtomicU64::new(0);

thread_local! {
    static MATERIAL: RefCell<Option<Rc<(Stream, Frame)>>> = const { RefCell::new(None) };
}

fn material() -> Option<Rc<(Stream, Frame)>> {
    MATERIAL.with(|m| {
        if m.borrow().is_none() {
            // a small single-thread stream (frames WITHOUT a precomputed bitstream) and a
            // constructor-built frame
            let built = catch(|| {
                let mut cfg = config::Encoder::default();
                cfg.multithread = false;
                cfg.block_size = 64;
                let v = cfg.into_verified().ok()?;
                let pcm: Vec<i32> = (0..200i32).map(|t| ((t * 37) % 201 - 100) * 50).collect();
                let src = MemSource::from_samples(&pcm, 1, 16, 44100);
                let stream = flacenc::encode_with_fixed_block_size(&v, src, 64).ok()?;
                let header = FrameHeader::new(32, ChannelAssignment::Independent(1), 16, 44100, FrameOffset::Frame(3)).ok()?;
                let sub = SubFrame::from(Verbatim::new(&(0..32).map(|t| t * 11 - 100).collect::<Vec<i32>>(), 16).ok()?);
                let frame = Frame::new(header, [sub].into_iter()).ok()?;
                Some(Rc::new((stream, frame)))
            });
            *m.borrow_mut() = built.ok().flatten();
        }
        m.borrow().clone()
    })
}

/// Performs 1-4 writes that fail part-way on the current thread.
pub fn failing_writes(rng: &mut Rng) {
    let Some(mat) = material() else { return };
    let (stream, frame) = (&mat.0, &mat.1);
    POISONINGS.fetch_add(1, Ordering::Relaxed);
    let n = 1 + rng.usize_below(4);
    for _ in 0..n {
        match rng.usize_below(6) {
            // a header that cannot be serialised (start sample >= 2^36 through the unchecked setter)
            0 => {
                let _ = catch(|| {
                    let mut h = frame.header().clone();
                    h.set_frame_offset(FrameOffset::StartSample(1u64 << 36));
                    let mut s = ByteSink::new();
                    let _ = h.write(&mut s);
                });
            }
            // a frame holding such a header
            1 => {
                let _ = catch(|| {
                    if let Ok(h) = FrameHeader::new(32, ChannelAssignment::Independent(1), 16, 44100, FrameOffset::Frame(1)) {
                        let mut h = h;
                        h.set_frame_offset(FrameOffset::StartSample((1u64 << 36) + 5));
                        if let Ok(c) = Constant::new(32, 7, 16) {
                            if let Ok(f) = Frame::new(h, [SubFrame::from(c)].into_iter()) {
                                let mut s = ByteSink::new();
                                let _ = f.write(&mut s);
                                let _ = f.verify();
                            }
                        }
                    }
                });
            }
            // the sink fails inside a constructor-built frame / its header
            2 => {
                let k = rng.usize_below(12);
                let _ = catch(|| {
                    let mut s = UserSink::failing_at(k);
                    let _ = frame.write(&mut s);
                });
            }
            3 => {
                let k = rng.usize_below(4);
                let _ = catch(|| {
                    let mut s = UserSink::failing_at(k);
                    let _ = frame.header().write(&mut s);
                });
            }
            // the sink fails somewhere inside an encoder-built stream / one of its frames
            4 => {
                let k = rng.usize_below(60);
                let _ = catch(|| {
                    let mut s = UserSink::failing_at(k);
                    let _ = stream.write(&mut s);
                });
            }
            _ => {
                let k = rng.usize_below(20);
                let i = rng.usize_below(stream.frame_count().max(1));
                let _ = catch(|| {
                    if let Some(f) = stream.frame(i) {
                        let mut s = UserSink::failing_at(k);
                        let _ = f.write(&mut s);
                    }
                });
            }
        }
    }
}
